------------------------------ MODULE MC_Heap ------------------------------
(* Bounded exhaustive check of Heap.tla on itself: every sequence of at most   *)
(* MaxDepth operations over |Obj| objects (NSlots regions each) and a buffer.  *)
(*                                                                             *)
(* Variant "ok"          the implementation follows the region discipline      *)
(*                       (fresh regions for Copy / Unpack / NewBuf): Disjoint, *)
(*                       non-interference, copy equality and the read-only     *)
(*                       frame are invariants.                                 *)
(* Variant "any"         Copy and Unpack may return ANY regions, shared or     *)
(*                       not: InvImpl -- Disjoint before a step implies        *)
(*                       non-interference of the step -- is an invariant: the  *)
(*                       discipline is what buys the property.                 *)
(* Variant "anycopyto"    only CopyTo may use ANY regions (Copy / Unpack follow *)
(*                        the discipline): InvImpl.                            *)
(* Variants "shallowcopy" (Copy shares its first region with the source),      *)
(*          "aliasunpack" (the first region of an unpacked object is the       *)
(*                         buffer's),                                          *)
(*          "dirtyro"     (the read-only operation Sign writes into its        *)
(*                         argument),                                          *)
(*          "reusecopyto" (CopyTo puts the copy into the regions the target    *)
(*                         already has, shared with the source or not):        *)
(*                        InvNI MUST FAIL -- the driver requires the violation *)
(*                        (non-vacuity).                                       *)
(* The caller's Alias (a shallow copy sharing a non-empty set of slots) and    *)
(* CopyTo into any live object are part of every variant.                      *)
EXTENDS Heap

CONSTANTS Variant, NSlots, MaxDepth,
          Ext        \* TRUE: with the caller's Alias and CopyTo into live objects

VARIABLES S, last, nextc, depth

vars == <<S, last, nextc, depth>>

MaxReg(T) == CHOOSE r \in DOMAIN T.mem : \A q \in DOMAIN T.mem : q <= r
FreshSeq(T, k) == [i \in 1..k |-> MaxReg(T) + i]
NextObj(T) == CHOOSE o \in Obj \ T.live : \A q \in Obj \ T.live : o <= q
U(c, i) == 1000 * i + 100 + c                      \* content of slot i of an object decoded from buffer content c

Init ==
  /\ S = [slots |-> [o \in Obj |-> IF o = 1 THEN [i \in 1..NSlots |-> i] ELSE <<>>],
          mem   |-> [r \in 1..(NSlots + 1) |-> r],
          bk    |-> [o \in Obj |-> 0],
          live  |-> {1},
          buf   |-> NSlots + 1,
          al    |-> {}]
  /\ last = [op |-> "init"]
  /\ nextc = NSlots + 2
  /\ depth = 0

Step(opname, p, T) ==
  /\ S' = T
  /\ last' = [op |-> opname, p |-> p, pre |-> S, tgt |-> Targets(S, opname, p)]
  /\ depth' = depth + 1

CopyChoices(x) ==
  LET k == Len(S.slots[x])  f == FreshSeq(S, k) IN
  CASE Variant = "any"         -> [1..k -> Allocated(S) \cup Range(f)]
    [] Variant = "shallowcopy" -> { [f EXCEPT ![1] = S.slots[x][1]] }
    [] OTHER                   -> { f }

UnpackChoices ==
  LET f == FreshSeq(S, NSlots) IN
  CASE Variant = "any"         -> [1..NSlots -> Allocated(S) \cup Range(f)]
    [] Variant = "aliasunpack" -> { [f EXCEPT ![1] = S.buf] }
    [] OTHER                   -> { f }

DoCopy == \E x \in S.live : Obj \ S.live # {} /\ \E ns \in CopyChoices(x) :
            LET p == [x |-> x, y |-> NextObj(S), ns |-> ns] IN
            /\ CopyShape(S, p)
            /\ (Variant \in {"ok", "dirtyro"} => CopyDisc(S, p))
            /\ Step("copy", p, CopyPost(S, p)) /\ UNCHANGED nextc

DoUnpack == Obj \ S.live # {} /\ \E ns \in UnpackChoices :
            LET p == [y |-> NextObj(S), ns |-> ns, cs |-> [i \in 1..NSlots |-> U(S.mem[S.buf], i)], b |-> 0] IN
            /\ UnpackShape(S, p)
            /\ (Variant \in {"ok", "dirtyro"} => UnpackDisc(S, p))
            /\ Step("unpack", p, UnpackPost(S, p)) /\ UNCHANGED nextc

\* the caller's shallow copy: any non-empty set of slots shared
DoAlias == \E x \in S.live : Obj \ S.live # {} /\ \E ks \in (SUBSET (1..Len(S.slots[x]))) \ {{}} :
            LET f == FreshSeq(S, Len(S.slots[x]))
                p == [x |-> x, y |-> NextObj(S), ns |-> [i \in 1..Len(f) |-> IF i \in ks THEN S.slots[x][i] ELSE f[i]]] IN
            /\ AliasShape(S, p) /\ AliasDisc(S, p)
            /\ Step("alias", p, AliasPost(S, p)) /\ UNCHANGED nextc

\* new regions, or the target's own once more (slot by slot; the discipline decides which of these are admissible)
CopyToChoices(x, t) ==
  LET k == Len(S.slots[x])  f == FreshSeq(S, k) IN
  CASE Variant \in {"any", "anycopyto"} -> [1..k -> Allocated(S) \cup Range(f)]
    [] Variant = "reusecopyto" -> { IF Len(S.slots[t]) = k THEN S.slots[t] ELSE f }
    [] OTHER                   -> IF Len(S.slots[t]) = k THEN { [i \in 1..k |-> IF i \in ks THEN S.slots[t][i] ELSE f[i]] : ks \in SUBSET (1..k) } ELSE { f }

DoCopyTo == \E x \in S.live, t \in S.live : x # t /\ \E ns \in CopyToChoices(x, t) :
            LET p == [x |-> x, t |-> t, ns |-> ns] IN
            /\ CopyToShape(S, p)
            /\ (Variant \in {"ok", "dirtyro"} => CopyToDisc(S, p))
            /\ Step("copyto", p, CopyToPost(S, p)) /\ UNCHANGED nextc

DoMutate == \E x \in S.live : \E i \in 1..Len(S.slots[x]) :
            LET r == S.slots[x][i]
                p == [x |-> x, r |-> r, c |-> nextc, b |-> S.bk[x], pb |-> [o \in Sharers(S, x, r) |-> S.bk[o]]] IN
            /\ MutateShape(S, p)
            /\ Step("mutate", p, MutatePost(S, p)) /\ nextc' = nextc + 1

DoScribble == LET p == [c |-> nextc] IN
            /\ ScribbleShape(S, p)
            /\ Step("scribble", p, ScribblePost(S, p)) /\ nextc' = nextc + 1

DoRO == \E op \in ROOps : \E xs \in { q \in SUBSET S.live : Cardinality(q) \in 1..2 } : \E nb \in [ROArgs(S, xs) -> 0..1] :
            LET p == [op |-> op, xs |-> xs, nb |-> nb]
                T == ROPost(S, p)
                x == CHOOSE o \in xs : TRUE
                \* the broken variant: Sign canonicalises its argument in place
                T2 == IF Variant = "dirtyro" /\ op = "Sign" THEN [T EXCEPT !.mem[S.slots[x][1]] = nextc] ELSE T
            IN /\ ROShape(S, p)
               /\ Step("ro", p, T2) /\ nextc' = nextc + 1

DoNewBuf == LET p == [r |-> MaxReg(S) + 1, c |-> nextc] IN
            /\ NewBufShape(S, p) /\ NewBufDisc(S, p)
            /\ Step("newbuf", p, NewBufPost(S, p)) /\ nextc' = nextc + 1

Next == depth < MaxDepth /\ (DoCopy \/ DoUnpack \/ DoMutate \/ DoScribble \/ DoRO \/ DoNewBuf \/ (Ext /\ (DoAlias \/ DoCopyTo)))

-----------------------------------------------------------------------------
InvDisjoint == Disjoint(S)
InvNI       == last.op # "init" => NonInterf(last.pre, S, last.tgt)
\* (CopyTo writes the regions it is given: its own discipline is part of the premise)
InvImpl     == last.op # "init" /\ Disjoint(last.pre) /\ (last.op = "copyto" => CopyToDisc(last.pre, last.p))
                 => NonInterf(last.pre, S, last.tgt)
InvCopyEq   == /\ last.op \in {"copy", "alias"} => Value(S, last.p.y) = Value(last.pre, last.p.x)
               /\ last.op = "copyto" => Value(S, last.p.t) = Value(last.pre, last.p.x)
\* after CopyTo the target shares nothing with its source -- whatever it shared before -- nor with any object that was
\* not its partner, and is not the source's partner
InvCopyTo   == last.op = "copyto" =>
                 LET t == last.p.t  x == last.p.x IN
                 /\ Regions(S, x) \cap Regions(S, t) = {} /\ ~Aliased(S, x, t)
                 /\ \A o \in S.live \ {t} : ~Aliased(last.pre, o, t) => Regions(S, o) \cap Regions(S, t) = {} /\ ~Aliased(S, o, t)
                 /\ S.buf \notin Regions(S, t)
                 /\ Value(S, x) = Value(last.pre, x)
\* al says who shares: objects that share a region are partners (the converse need not hold after a CopyTo of a third)
InvAl       == \A a, b \in S.live : a # b /\ Regions(S, a) \cap Regions(S, b) # {} => Aliased(S, a, b)
InvMutate   == last.op = "mutate" => Value(S, last.p.x) # Value(last.pre, last.p.x)    \* a mutation is observable in its target
InvRO       == last.op = "ro" => OnlyBk(last.pre, S, ROArgs(last.pre, last.p.xs))
\* non-vacuity witnesses: each must be VIOLATED when checked alone (driver: thorough tier)
WitnessThreeObjects == Cardinality(S.live) < Cardinality(Obj)
WitnessBookkeeping  == \A o \in Obj : S.bk[o] = 0
\* a CopyTo into a target that shares memory with its source; a Mutate seen through a partner
WitnessCopyToAliased == ~(last.op = "copyto" /\ Aliased(last.pre, last.p.x, last.p.t))
WitnessSharedWrite   == ~(last.op = "mutate" /\ Cardinality(last.tgt) > 1)
=============================================================================
