CONSTANTS
  Obj = {1, 2, 3}
  NSlots = 2
INIT Init
NEXT Next
INVARIANTS WitnessSharedWrite
CHECK_DEADLOCK FALSE
