------------------------------- MODULE MC_Dane -------------------------------
(* Dane.tla on itself, with a toy digest table (the digests are uninterpreted:  *)
(* any function does) over toy certificates.                                    *)
EXTENDS Dane

VARIABLES k, x        \* k: which slice, x: its case
Octs(n) == UNION { [1..m -> {0, 9, 10, 15, 16, 171, 255}] : m \in 0..n }

\* a toy digest: depends on every octet and on the algorithm
Toy(alg, s) == LET t == SumSeq([i \in 1..Len(s) |-> i * (s[i] + 1)]) + (IF alg = "sha256" THEN 7 ELSE 11) IN
               [i \in 1..(IF alg = "sha256" THEN 32 ELSE 64) |-> (t * i + Len(s)) % 256]
Certs == { [raw |-> r, spki |-> s] : r \in {<<48, 1, 2, 3>>, <<48, 255, 0>>}, s \in {<<48, 1>>, <<2, 3>>, <<48, 1, 2, 3>>} }
TableOf(S) == { [alg |-> a, pre |-> p, dig |-> Toy(a, p)] : a \in {"sha256", "sha512"}, p \in S }
T == TableOf(UNION { {c.raw, c.spki} : c \in Certs } \cup { <<117>>, <<>>, <<85, 115, 101, 114>> })

Init == \/ k = "hex"  /\ x \in Octs(2)
        \/ k = "dec"  /\ x \in 0..65535
        \/ k = "dane" /\ x \in [c : Certs, sel : -1..3, mt : -1..3, usage : {-1, 0, 3, 255, 256}]
        \/ k = "ver"  /\ x \in [c : Certs, d : Certs, sel : 0..2, mt : 0..3]
        \/ k = "name" /\ x \in [port : {0, 1, 25, 443, 65535}, root : BOOLEAN, net : {"tcp", "udp"}]
Next == UNCHANGED << k, x >>

Upper(t) == [i \in 1..Len(t) |-> IF t[i] >= 97 /\ t[i] <= 122 THEN t[i] - 32 ELSE t[i]]

HexInv == k = "hex" => /\ IsHex(HexL(x)) /\ UnHex(HexL(x)) = x /\ Len(HexL(x)) = 2 * Len(x)
                       /\ IsHex(Upper(HexL(x))) /\ UnHex(Upper(HexL(x))) = x          \* either case decodes
                       /\ \A i \in 1..Len(HexL(x)) : HexL(x)[i] \in (48..57) \cup (97..102)   \* rendered in lower case
                       /\ ~IsHex(HexL(x) \o <<48>>) /\ ~IsHex(HexL(x) \o <<103, 48>>)
DecInv == k = "dec" => /\ AllDigits(Dec(x)) /\ DecVal(Dec(x)) = x
                       /\ (x > 0 => Dec(x)[1] # 48)                                  \* no leading zeros
                       /\ DecVal(<<48>> \o Dec(x)) = x
DaneInv == k = "dane" =>
  LET r == CertificateToDANE(T, x.sel, x.mt, x.c)
      s == Sign(T, 52, x.usage, x.sel, x.mt, x.c) IN
  /\ r.ok <=> (x.sel \in {0, 1} /\ x.mt \in {0, 1, 2})
  /\ s.ok <=> r.ok
  /\ (SignMaySucceed(x.usage, x.sel, x.mt) \/ SignMayFail(x.usage, x.sel, x.mt))
  /\ r.ok => /\ IsHex(r.text)
             /\ Len(r.text) = 2 * (IF x.mt = 0 THEN Len(Selected(x.sel, x.c)) ELSE IF x.mt = 1 THEN 32 ELSE 64)
             /\ (x.mt = 0 => UnHex(r.text) = (IF x.sel = 0 THEN x.c.raw ELSE x.c.spki))
             /\ s.text = r.text /\ s.usage \in 0..255 /\ s.selector = x.sel /\ s.matching = x.mt
             /\ Verify(T, x.sel, x.mt, r.text, x.c)                                  \* Sign then Verify
             /\ Verify(T, x.sel, x.mt, Upper(r.text), x.c)                           \* hexadecimal of either case
             /\ ~Verify(T, x.sel, x.mt, Tail(r.text), x.c)
VerInv == k = "ver" =>
  /\ ~Supported(x.sel, x.mt) => ~Verify(T, x.sel, x.mt, <<>>, x.c)
  /\ Supported(x.sel, x.mt) =>
       LET a == CertificateToDANE(T, x.sel, x.mt, x.d).text IN
       Verify(T, x.sel, x.mt, a, x.c) <=> (Association(T, x.sel, x.mt, x.d) = Association(T, x.sel, x.mt, x.c))
NameInv == k = "name" =>
  LET base == IF x.root THEN <<46>> ELSE <<97, 46, 98, 46>>
      nt == IF x.net = "tcp" THEN <<116, 99, 112>> ELSE <<117, 100, 112>>
      r == TLSAName(base, Dec(x.port), "", x.net, nt)
      m == SMIMEAName(T, <<117>>, base) IN
  /\ r.ok /\ r.text[1] = 95 /\ IsFqdnText(r.text)
  /\ r.text = <<95>> \o Dec(x.port) \o <<46, 95>> \o nt \o <<46>> \o (IF x.root THEN <<>> ELSE base)
  /\ ~(\E i \in 1..(Len(r.text) - 1) : r.text[i] = 46 /\ r.text[i + 1] = 46)          \* no empty label
  /\ ~TLSAName(<<97>>, Dec(x.port), "", x.net, nt).ok                                  \* not fully qualified
  /\ ~TLSAName(base, <<54, 53, 53, 51, 54>>, "", x.net, nt).ok                         \* 65536
  /\ TLSAName(base, <<104>>, "https", "tcp", nt).ok /\ ~TLSANameDefined(<<104>>, "https", "udp")
  /\ ~TLSAName(base, <<104>>, "", "tcp", nt).ok                                         \* not a service at all
  /\ m.ok /\ Len(m.text) = 56 + 1 + 10 + 1 + (IF x.root THEN 0 ELSE Len(base))
  /\ ~(\E i \in 1..(Len(m.text) - 1) : m.text[i] = 46 /\ m.text[i + 1] = 46)
=============================================================================
