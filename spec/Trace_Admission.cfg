CONSTANTS
  MaxLabel = 63
  MaxName = 255
INIT Init
NEXT Next
POSTCONDITION AcceptedC
CHECK_DEADLOCK FALSE
