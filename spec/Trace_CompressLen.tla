------------------------- MODULE Trace_CompressLen -------------------------
(* Validates events recorded by harness `wire lenrec` (C08).  One event = one  *)
(* random abstract message with a compression setting and what the library     *)
(* said and did:                                                               *)
(*   len      Msg.Len() under that setting      ulen   Msg.Len() uncompressed  *)
(*   packed / packerr / packlen   Pack() and the number of octets it produced  *)
(*   stable   the Pack() above ran right after a FAILED Pack() of a message     *)
(*            with the same names (Compress only); a second Pack() agreed       *)
(*   rrlen    per record <<Len(rr), octets PackRR produced>>                   *)
(*   probes   PackBuffer with buffers of 0, U, U+1, U+2, 2U octets:            *)
(*            [n, err, same (as Pack()), inplace (result aliases the buffer)]  *)
(* The specification judges (first violated clause = stage, part of the key):  *)
(*   a packable message is packed, never ErrBuf;                               *)
(*   packlen = LenMsg(msg) uncompressed, <= LenMsg(msg) compressed;            *)
(*   len >= packlen, = for PlainMsg (common types, escape-free);               *)
(*   Len(rr) >= LenRR, = for PlainRR;                                          *)
(*   PackBuffer never fails, yields Pack()'s octets and works in place when    *)
(*   the buffer is larger than the uncompressed length -- AMBIG: the true one  *)
(*   (LenMsg) or the library's own prediction (ulen): larger than both.        *)
(* spell (optional, 0 when absent): the Go value was built with its names and  *)
(* strings in a non-canonical spelling (redundant backslashes, \D, \DD, \DDD of *)
(* printable characters, a trailing backslash) after the recorder had seen the *)
(* packer make the canonical spelling's octets of it given room: it is the     *)
(* same abstract message, so every clause applies with the same LenMsg / LenRR *)
(* -- except exactness (the statement restricts it to content that needs no   *)
(* escapes) and the binding of the machines (which read canonical spellings).  *)
(* Binding of the CompressLen machines: where everything outside names is      *)
(* predicted exactly (ExactOutsideNames) the observed len and packlen must     *)
(* equal LenImplMsg / PackImplMsg; a difference means the model does not       *)
(* describe the code (register 3, VP:ill, infrastructure error, no verdict).   *)
EXTENDS CompressLen, TraceBase

VARIABLE l

Ev == Trace[l]

RRsOf(m) == m.an \o m.ns \o m.ar
Spelled(e) == "spell" \in DOMAIN e /\ e.spell # 0

ProbeStage(e, need) ==
  IF \E i \in 1..Len(e.probes) : e.probes[i].err = "ErrBuf" THEN "packbuffer-errbuf"
  ELSE IF \E i \in 1..Len(e.probes) : e.probes[i].err # "" THEN "packbuffer-error"
  ELSE IF \E i \in 1..Len(e.probes) : ~e.probes[i].same THEN "packbuffer-octets"
  ELSE IF \E i \in 1..Len(e.probes) : e.probes[i].n > need /\ ~e.probes[i].inplace THEN "packbuffer-not-in-place"
  ELSE "ok"

Stage(e) ==
  LET m == e.msg  rrs == RRsOf(m) IN
  IF ~Packable(m) THEN (IF e.packed THEN "accepts-unpackable" ELSE "ok")
  ELSE IF ~e.packed THEN (IF e.packerr = "ErrBuf" THEN "pack-errbuf" ELSE IF MayRefuse(m) THEN "ok" ELSE "pack-error")
  ELSE IF ~e.compress /\ e.packlen # LenMsg(m) THEN "uncompressed-length"
  ELSE IF e.compress /\ e.packlen > LenMsg(m) THEN "compressed-longer"
  ELSE IF ~e.stable THEN "pack-unstable"               \* packed right after a failed Pack of the same names; packed again: same octets
  ELSE IF e.len < e.packlen THEN "underestimate"
  ELSE IF ~Spelled(e) /\ PlainMsg(m) /\ e.len # e.packlen THEN "inexact"
  ELSE IF Len(e.rrlen) # Len(rrs) THEN "rr-count"
  ELSE IF \E i \in 1..Len(rrs) : e.rrlen[i][2] # LenRR(rrs[i]) THEN "rr-length"
  ELSE IF \E i \in 1..Len(rrs) : e.rrlen[i][1] < LenRR(rrs[i]) THEN "rr-underestimate"
  ELSE IF ~Spelled(e) /\ \E i \in 1..Len(rrs) : PlainRR(rrs[i]) /\ e.rrlen[i][1] # LenRR(rrs[i]) THEN "rr-inexact"
  ELSE ProbeStage(e, Max(LenMsg(m), e.ulen))

ModelOK(e) ==
  LET m == e.msg IN
  Packable(m) /\ e.packed /\ ExactOutsideNames(m) /\ ~Spelled(e) =>
    /\ e.packlen = PackImplMsg(m, e.compress)
    /\ e.len = LenImplMsg(m, e.compress)

Init == l = 1 /\ HWInit /\ TLCSet(3, <<>>) /\ TLCSet(4, <<>>)
Next == /\ l <= Len(Trace)
        /\ IF ~WFMsg(Ev.msg) THEN TLCSet(3, Append(TLCGet(3), l))
           ELSE LET st == Stage(Ev) IN
                IF st # "ok" THEN MarkBad(l) /\ TLCSet(4, Append(TLCGet(4), <<l, st>>))
                ELSE IF ~ModelOK(Ev) THEN TLCSet(3, Append(TLCGet(3), -l))    \* negative: model mismatch
                ELSE TRUE
        /\ HW(l)
        /\ l' = l + 1

Accepted3 == /\ PrintT("VP:ill=" \o ToJson(TLCGet(3)))
             /\ PrintT("VP:stages=" \o ToJson(TLCGet(4)))
             /\ Accepted
=============================================================================
