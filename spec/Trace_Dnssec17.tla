--------------------------- MODULE Trace_Dnssec17 ---------------------------
(* Validates events recorded from the real code (harness `sec17 record`)       *)
(* against Dnssec17 and KeyLife17.                                             *)
(*  - keytag / cover / validity events are judged completely here;             *)
(*  - ds / hashname / cover events carry digests of hash functions the spec    *)
(*    does not interpret: the spec checks their form and writes the octets     *)
(*    (DS) or the plan (NSEC3) the hash is applied to, next to the recorded    *)
(*    digest, into emit.ndjson; `sec17 finish` evaluates them with the         *)
(*    standard library;                                                        *)
(*  - kl.* events drive the KeyLife17 state machine (blocking), except that a  *)
(*    verification with the wrong outcome is marked bad and the model moves on;*)
(*    a kl.relay event carries the text before and after: the step is enabled  *)
(*    only if both have the same key fields (KFSameKey) -- the recorder's       *)
(*    re-layout is checked, not trusted; a kl.import carries the text read and  *)
(*    the second export of the key read from it: same key fields, or bad;      *)
(*  - an event whose call PANICKED is bad whatever its arguments (totality).    *)
(* A wrong pure event is marked bad, with its finding key in register 3.       *)
EXTENDS Dnssec17, TraceBase, CSV

VARIABLES l, hs, ts, ss, hist

KL == INSTANCE KeyLife17 WITH Keys <- 1..64, MaxOps <- 0, Layouts <- {"observed"}

Ev == Trace[l]
EmitX(rec) == CSVWrite("%1$s", <<ToJson(rec)>>, "emit.ndjson")

KeytagKey(e) ==
  IF e.tag = KeyTag(DNSKEYRdata(e.flags, e.proto, e.alg, e.key)) THEN "" ELSE "keytag/value"

DSKey(e) ==
  LET p  == Parse(e.owner)
      rd == DNSKEYRdata(e.flags, e.proto, e.alg, e.key)
      hn == DSHash(e.dt)
  IN IF p.st # "ok" \/ ~p.fq THEN "trace/owner-not-a-name"
     ELSE IF hn = "none" THEN (IF e.isnil \/ e.dt = 5 THEN "" ELSE "ds/undefined-type-digest")   \* AMBIG: 5 = the library's experimental SHA-512
     ELSE IF e.isnil THEN "ds/nil-for-defined-type"
     ELSE IF ~IsHex(e.digest) THEN "ds/digest-not-hex"
     ELSE IF e.dstag # KeyTag(rd) THEN "ds/fields"
     ELSE IF EmitX([i |-> l, kind |-> "ds", key |-> DSDigestKey(hn, e.owner), hash |-> hn, input |-> DSInput(p.labels, rd), digest |-> HexDec(e.digest)])
          THEN "" ELSE "trace/emit"

HashKey(e) ==
  LET p == Parse(e.name) IN
  IF p.st # "ok" \/ ~p.fq THEN "trace/name-not-a-name"
  ELSE IF ~IsB32(e.hash) \/ Len(e.hash) # 32 THEN "nsec3/hashname-format"
  ELSE IF EmitX([i |-> l, kind |-> "n3", key |-> HashNameKey(e.name, FALSE), plan |-> NSEC3Plan(p.labels, e.salt, e.iter), digest |-> B32Dec(e.hash)])
       THEN "" ELSE "trace/emit"

CoverKey(e) ==
  LET po == Parse(e.owner)  pn == Parse(e.name) IN
  IF po.st # "ok" \/ pn.st # "ok" \/ Len(po.labels) = 0 \/ ~IsB32(e.next) \/ ~IsB32(e.h) THEN "trace/cover-event-malformed"
  ELSE IF ~IsB32(po.labels[1]) THEN "trace/cover-event-malformed"
  ELSE
    LET o    == B32Dec(po.labels[1])
        zone == Tail(po.labels)
        nx   == B32Dec(e.next)
        h    == B32Dec(e.h)
        cls  == CoverClass(zone, pn.labels, o, nx, h)
    IN IF e.match # Match(zone, pn.labels, o, h) THEN "nsec3/match" \o cls
       ELSE IF e.cover # Cover(zone, pn.labels, o, nx, h) THEN "nsec3/cover" \o cls
       ELSE IF EmitX([i |-> l, kind |-> "n3", key |-> "nsec3/hashname", plan |-> NSEC3Plan(pn.labels, e.salt, e.iter), digest |-> h])
            THEN "" ELSE "trace/emit"

ValidityKey(e) ==
  LET t == <<e.t[2], e.t[3]>> IN
  IF ~ValidDefined(e.I, e.E, t) THEN ""                       \* distance exactly 2^31: undefined
  ELSE IF e.valid = ValidAt(e.I, e.E, t) THEN ""
  ELSE ValidityClass(e.I, e.E, t, e.t[1])

(* rrsig: a signature made during a key life, with the key material as the     *)
(* standard library holds it (never taken from the DNSKEY under test)          *)
ExpectedPub(p) == CASE p.kind = "rsa"   -> RSAPublicKey(p.e, p.n)
                    [] p.kind = "ecdsa" -> ECPublicKey(p.x, p.y, p.len)
                    [] OTHER            -> p.k
RrsigKey(e) ==
  LET po == Parse(e.owner)  ps == Parse(e.signer) IN
  IF po.st # "ok" \/ ps.st # "ok" \/ ~po.fq \/ ~ps.fq THEN "trace/rrsig-names"
  ELSE IF e.pubkey # ExpectedPub(e.pub) THEN "keylife/public-key-encoding:" \o e.combo
  ELSE IF e.keytag # KeyTag(DNSKEYRdata(e.flags, e.proto, e.alg, e.pubkey)) THEN "keylife/rrsig-keytag:" \o e.combo
  ELSE IF ~e.verified THEN "keylife/verify-rejects-own-key:" \o e.combo
  ELSE
    LET f == [tc |-> e.tc, alg |-> e.alg, labels |-> Len(po.labels), origttl |-> e.ttl, exp |-> e.exp, inc |-> e.inc,
              keytag |-> e.keytag, signer |-> ps.labels] IN
    IF e.labels # f.labels THEN "keylife/rrsig-labels:" \o e.combo
    ELSE IF EmitX([i |-> l, kind |-> "rrsig", key |-> "keylife/signature-not-over-rfc4034-octets:" \o e.combo, hash |-> SigHashOf(e.alg),
                   signed |-> RRSIGInput(f, po.labels, e.class, e.rdatas), sig |-> e.sig, pub |-> e.pub])
         THEN "" ELSE "trace/emit"

\* totality: a call that panicked returned no value
Panicked(e) == Has(e, "panic") /\ e.panic # ""
PanicKeyOf(e) == CASE e.ev = "keytag"   -> "keytag/panics"
                   [] e.ev = "ds"       -> DSPanicKey(e.dt)
                   [] e.ev = "hashname" -> "nsec3/hashname-panics"
                   [] e.ev = "cover"    -> "nsec3/cover-or-match-panics"
                   [] e.ev = "validity" -> "validity/panics"
                   [] OTHER -> "trace/unknown-event"
JudgeKey(e) == CASE e.ev = "keytag"   -> KeytagKey(e)
                [] e.ev = "rrsig"    -> RrsigKey(e)
                [] e.ev = "ds"       -> DSKey(e)
                [] e.ev = "hashname" -> HashKey(e)
                [] e.ev = "cover"    -> CoverKey(e)
                [] e.ev = "validity" -> ValidityKey(e)
                [] OTHER -> "trace/unknown-event"
PureKey(e) == IF Panicked(e) THEN PanicKeyOf(e) ELSE JudgeKey(e)

IsKL(e) == e.ev \in {"kl.reset", "kl.gen", "kl.provide", "kl.export", "kl.relay", "kl.import", "kl.sign", "kl.verify"}
klvars == <<hs, ts, ss, hist>>
Bad(key) == MarkBad(l) /\ TLCSet(3, Append(TLCGet(3), key))

\* operations on a relayed copy, or with a key read from one, are finding classes of their own
RelaidT(j) == j \in 1..Len(ts) /\ ts[j].copy # 0
RelaidH(i) == i \in 1..Len(hs) /\ hs[i].origin = "imp" /\ RelaidT(hs[i].text)
Pfx(b) == IF b THEN "keylife/relaid-" ELSE "keylife/"
How(e) == IF Has(e, "errclass") /\ e.errclass = "panics" THEN "panics" ELSE "fails"
\* a successful import: the key read, exported again, has the key fields of the text read
ReexportKey(e) ==
  IF e.reexppanic # "" THEN Pfx(RelaidT(e.t)) \o "reexport-panics:" \o e.alg
  ELSE IF ~Has(e, "text") THEN ""                                   \* not recorded (the largest keys)
  ELSE IF ~Has(e, "reexp") THEN "keylife/export-empty:" \o e.alg
  ELSE IF ~KFWellFormed(e.text) THEN "trace/import-text-malformed"
  ELSE IF KFSameKey(e.text, e.reexp) THEN "" ELSE Pfx(RelaidT(e.t)) \o "reexport-differs:" \o e.alg

KLStep(e) ==
  \/ e.ev = "kl.reset"  /\ hs' = <<>> /\ ts' = <<>> /\ ss' = <<>> /\ hist' = <<>>
  \/ e.ev = "kl.gen"    /\ ~e.failed /\ KL!Generate(e.key)
  \/ e.ev = "kl.gen"    /\ e.failed  /\ Bad("keylife/generate-" \o e.errclass \o ":" \o e.alg) /\ UNCHANGED klvars     \* a supported size always yields a key
  \/ e.ev = "kl.provide" /\ KL!Provide(e.key)
  \/ e.ev = "kl.export" /\ ~e.failed /\ KL!Export(e.h)
  \/ e.ev = "kl.export" /\ e.failed  /\ e.h \in 1..Len(hs)
                        /\ Bad(IF How(e) = "panics" THEN "keylife/export-panics:" \o e.alg ELSE "keylife/export-empty:" \o e.alg) /\ UNCHANGED klvars
  \/ e.ev = "kl.relay"  /\ KFSameKey(e.old, e.new) /\ KL!Relay(e.t, "observed")
  \/ e.ev = "kl.relay"  /\ ~KFSameKey(e.old, e.new) /\ Bad("trace/relay-changed-the-key-fields") /\ UNCHANGED klvars    \* a recorder bug: infrastructure
  \/ e.ev = "kl.import" /\ ~e.failed /\ KL!Import(e.t, e.api)
                        /\ LET k == ReexportKey(e) IN IF k = "" THEN TRUE ELSE Bad(k)
  \/ e.ev = "kl.import" /\ e.failed  /\ e.t \in 1..Len(ts)
                        /\ Bad(Pfx(RelaidT(e.t)) \o "import-" \o How(e) \o ":" \o e.alg) /\ UNCHANGED klvars   \* importing a text for this DNSKEY always succeeds
  \/ e.ev = "kl.sign"   /\ ~e.failed /\ KL!Sign(e.h)
  \/ e.ev = "kl.sign"   /\ e.failed  /\ e.h \in 1..Len(hs)
                        /\ Bad(IF e.errclass = "keytag0" THEN "keylife/sign-refuses-keytag-0" ELSE Pfx(RelaidH(e.h)) \o "sign-" \o How(e) \o ":" \o e.alg)
                        /\ UNCHANGED klvars
  \/ e.ev = "kl.verify" /\ ~e.failed /\ KL!Verify(e.key, e.s)
                        /\ IF e.ok = KL!VerifyResult(e.key, e.s) THEN TRUE
                           ELSE Bad(Pfx(RelaidH(ss[e.s].by)) \o (IF e.ok THEN "verify-accepts-other-key:" ELSE "verify-rejects-own-key:") \o e.alg)
  \/ e.ev = "kl.verify" /\ e.failed  /\ e.s \in 1..Len(ss)
                        /\ Bad(Pfx(RelaidH(ss[e.s].by)) \o "verify-panics:" \o e.alg) /\ UNCHANGED klvars

Init == l = 1 /\ hs = <<>> /\ ts = <<>> /\ ss = <<>> /\ hist = <<>> /\ HWInit /\ TLCSet(3, <<>>)
Next == /\ l <= Len(Trace)
        /\ IF IsKL(Ev) THEN KLStep(Ev)
           ELSE /\ LET k == PureKey(Ev) IN IF k = "" THEN TRUE ELSE Bad(k)
                /\ UNCHANGED klvars
        /\ HW(l)
        /\ l' = l + 1

Accepted17 == PrintT("VP:keys=" \o ToJson(TLCGet(3))) /\ Accepted
=============================================================================
