CONSTANTS
  MaxLabel = 63
  MaxName = 255
  SureDepth = 3
  MaxDepth = 64
  MaxGen = 65536
INIT Init
NEXT Next
INVARIANT Out
