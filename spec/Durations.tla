----------------------------- MODULE Durations -----------------------------
(* Zone-file numbers and generic mnemonics.                                     *)
(*  1. TTL / duration texts as the zone reader takes them (RFC 1035 s.5.1 plain *)
(*     decimal seconds; the BIND notation 1h30m with units s m h d w in either  *)
(*     case; RFC 2308 s.8: a TTL is an unsigned number of at most 2^31-1 -- the *)
(*     library stores 32 bits, so the bound here is 2^32-1).  Values are four   *)
(*     16-bit limbs <<l3, l2, l1, l0>> (TLC integers are 32-bit signed).        *)
(*  2. Generic type / class tokens, RFC 3597 s.5: "TYPE" / "CLASS" followed by  *)
(*     a decimal number 0..65535, no sign; mnemonics are case-insensitive; on   *)
(*     output the mnemonic is preferred when there is one.                      *)
(*  3. Generic RDATA, RFC 3597 s.5:  \# <length> <hex words>: length is decimal,*)
(*     the words hold exactly that many octets as pairs of hexadecimal digits;  *)
(*     for a type the reader knows the octets must also be an RDATA of it       *)
(*     (WireRR!DecRdata).                                                       *)
(* Text = sequence of character codes.                                          *)
EXTENDS WireRR

-----------------------------------------------------------------------------
(* four-limb naturals (64 bits)                                                 *)
Z4 == <<0, 0, 0, 0>>
L4(x) == << 0, 0, x \div 65536, x % 65536 >>                  \* 0 <= x < 2^31
Add4(a, b) ==
  LET s0 == a[4] + b[4]
      s1 == a[3] + b[3] + (s0 \div 65536)
      s2 == a[2] + b[2] + (s1 \div 65536)
      s3 == a[1] + b[1] + (s2 \div 65536)
  IN << s3 % 65536, s2 % 65536, s1 % 65536, s0 % 65536 >>
Mul4(a, k) ==                                                   \* k < 2^15
  LET p0 == a[4] * k
      p1 == a[3] * k + (p0 \div 65536)
      p2 == a[2] * k + (p1 \div 65536)
      p3 == a[1] * k + (p2 \div 65536)
  IN << p3 % 65536, p2 % 65536, p1 % 65536, p0 % 65536 >>
Fits32(a) == a[1] = 0 /\ a[2] = 0
Low32(a)  == << a[3], a[4] >>

UnitOf(c) == CASE c \in {115, 83} -> "s" [] c \in {109, 77} -> "m" [] c \in {104, 72} -> "h"
               [] c \in {100, 68} -> "d" [] c \in {119, 87} -> "w" [] OTHER -> ""
\* i (< 2^32) times the unit, in four limbs
Scale(i, u) == CASE u = "s" -> i
                 [] u = "m" -> Mul4(i, 60)
                 [] u = "h" -> Mul4(Mul4(i, 225), 16)            \* 3600
                 [] u = "d" -> Mul4(Mul4(i, 675), 128)           \* 86400
                 [] u = "w" -> Mul4(Mul4(Mul4(i, 675), 128), 7)  \* 604800

\* reader state: s sum so far, i number being read, dig: the number has a digit,
\* ovf: the value left 32 bits at some point (all terms are non-negative: then the total does too),
\* bare: a unit stood without a number
RECURSIVE TTLScan(_, _, _)
TTLScan(t, k, st) ==
  IF k > Len(t) THEN st
  ELSE LET c == t[k] IN
    IF IsDigit(c) THEN
      LET i2 == Add4(Mul4(st.i, 10), L4(c - 48)) IN
      TTLScan(t, k + 1, IF Fits32(i2) THEN [st EXCEPT !.i = i2, !.dig = TRUE]
                        ELSE [st EXCEPT !.i = Z4, !.dig = TRUE, !.ovf = TRUE])
    ELSE IF UnitOf(c) # "" THEN
      LET s2 == Add4(st.s, Scale(st.i, UnitOf(c))) IN
      TTLScan(t, k + 1, [st EXCEPT !.s = IF Fits32(s2) THEN s2 ELSE Z4, !.ovf = @ \/ ~Fits32(s2),
                                   !.i = Z4, !.dig = FALSE, !.bare = @ \/ ~st.dig])
    ELSE [st EXCEPT !.bad = TRUE]

ParseTTL(t) ==
  LET st == TTLScan(t, 1, [s |-> Z4, i |-> Z4, dig |-> FALSE, ovf |-> FALSE, bare |-> FALSE, bad |-> FALSE])
      tot == Add4(st.s, st.i) IN
  [bad |-> st.bad, ovf |-> st.ovf \/ ~Fits32(tot), bare |-> st.bare \/ t = <<>>, v |-> Low32(tot)]

\* the admissible outcomes <<accepted, value>>.  AMBIG: a unit without a number ("h", "1hm") and
\* the empty text have no meaning in the notation; a reader may refuse them or count nothing for them
No == << FALSE, <<0, 0>> >>
TTLAdm(t) ==
  LET p == ParseTTL(t) IN
  IF p.bad \/ p.ovf THEN { No }
  ELSE IF p.bare THEN { No, << TRUE, p.v >> }
  ELSE { << TRUE, p.v >> }

-----------------------------------------------------------------------------
(* generic tokens                                                               *)
UpperT(s) == [i \in 1..Len(s) |-> IF s[i] >= 97 /\ s[i] <= 122 THEN s[i] - 32 ELSE s[i]]
TTYPE  == <<84, 89, 80, 69>>             \* "TYPE"
TCLASS == <<67, 76, 65, 83, 83>>         \* "CLASS"

RECURSIVE DecCap(_, _, _)
DecCap(d, k, acc) == IF k > Len(d) THEN acc                       \* decimal value, saturating at 65536
                     ELSE DecCap(d, k + 1, IF acc * 10 + (d[k] - 48) > 65535 THEN 65536 ELSE acc * 10 + (d[k] - 48))
\* <prefix><decimal 0..65535>: the admissible outcomes <<accepted, code>>
\* AMBIG: leading zeros ("TYPE01") -- RFC 3597 says "decimal", nothing about zeros
GenericAdm(tok, prefix) ==
  LET u == UpperT(tok)  d == Sub(tok, Len(prefix) + 1, Len(tok)) IN
  IF ~IsPrefixOf(prefix, u) \/ d = <<>> \/ ~(\A i \in 1..Len(d) : IsDigit(d[i])) THEN { <<FALSE, 0>> }
  ELSE LET v == DecCap(d, 1, 0) IN
       IF v > 65535 THEN { <<FALSE, 0>> }
       ELSE IF Len(d) > 1 /\ d[1] = 48 THEN { <<FALSE, 0>>, <<TRUE, v>> }
       ELSE { <<TRUE, v>> }

RECURSIVE DecN(_)
DecN(n) == IF n < 10 THEN << 48 + n >> ELSE DecN(n \div 10) \o << 48 + (n % 10) >>
TypeGeneric(c)  == TTYPE \o DecN(c)
ClassGeneric(c) == TCLASS \o DecN(c)

\* classes: RFC 1035 s.3.2.4, RFC 2136 s.1.3
ClassNames == (1 :> "IN") @@ (2 :> "CS") @@ (3 :> "CH") @@ (4 :> "HS") @@ (254 :> "NONE") @@ (255 :> "ANY")

-----------------------------------------------------------------------------
(* generic RDATA: words = the tokens after \#                                   *)
HexDigitL(n) == IF n < 10 THEN 48 + n ELSE 87 + n
HexV(c) == IF c >= 48 /\ c <= 57 THEN c - 48 ELSE IF c >= 97 /\ c <= 102 THEN c - 87 ELSE IF c >= 65 /\ c <= 70 THEN c - 55 ELSE -1
GenericRdata(words) ==
  IF words = <<>> THEN [ok |-> FALSE, zeros |-> FALSE, rd |-> <<>>]
  ELSE LET ln == words[1]
           hx == Concat(Tail(words))
           lnOK == ln # <<>> /\ \A i \in 1..Len(ln) : IsDigit(ln[i])
           hxOK == Len(hx) % 2 = 0 /\ \A i \in 1..Len(hx) : HexV(hx[i]) >= 0
       IN IF ~lnOK \/ ~hxOK \/ DecCap(ln, 1, 0) # Len(hx) \div 2 THEN [ok |-> FALSE, zeros |-> FALSE, rd |-> <<>>]
          ELSE [ok |-> TRUE, zeros |-> Len(ln) > 1 /\ ln[1] = 48,          \* AMBIG: a length written with leading zeros
                rd |-> [i \in 1..(Len(hx) \div 2) |-> 16 * HexV(hx[2 * i - 1]) + HexV(hx[2 * i])]]

\* outcomes <<accepted, rdata>> for a record of type t
GenericRdataAdm(t, words) ==
  LET g == GenericRdata(words)
      fits == t \notin DOMAIN Layout \/ ~Decodable(t) \/ DecRdata(t, g.rd).ok IN
  IF g.ok /\ g.rd = <<>> /\ t \in DOMAIN Layout THEN { <<FALSE, <<>> >>, <<TRUE, <<>> >> }     \* AMBIG: "\# 0" with a known type is not an
                                                                                           \* RDATA of it, but it spells the RDATA-less record of RFC 2136
  ELSE IF ~g.ok \/ ~fits THEN { <<FALSE, <<>> >> }
  ELSE IF g.zeros THEN { <<FALSE, <<>> >>, <<TRUE, g.rd>> }
  ELSE { <<TRUE, g.rd>> }
=============================================================================
