CONSTANTS
  MaxLabel = 63
  MaxName = 255
  MaxOff = 16384
  Small = 600
INIT Init
NEXT Next
POSTCONDITION Accepted3
CHECK_DEADLOCK FALSE
