-------------------------------- MODULE Xfr --------------------------------
(* Incoming zone transfers (RFC 5936 AXFR, RFC 1995 IXFR, RFC 1982 serial      *)
(* arithmetic).  Property C15.                                                 *)
(*                                                                             *)
(* A transfer is a stream of records, SOA(serial) or Rec(id), that the sender  *)
(* cuts into envelopes (DNS messages) at will.  This module states             *)
(*   - which streams are complete transfers (AxfrDone, IxfrDone), as grammar   *)
(*     over the positions of the SOA records;                                  *)
(*   - the receiver as a machine over envelopes (RInit / RStep / REnd) with    *)
(*     the state the implementation keeps (first, n, axfr, serial, macPrev,    *)
(*     timersOnly) -- MC_Xfr shows that it stops exactly where the grammar     *)
(*     says, for every partition;                                              *)
(*   - the envelope-level checks: read/cut, TSIG against the running MAC       *)
(*     chain, ID, RCODE (every envelope), SOA first.                           *)
(* Records are <<1, hi, lo>> (SOA with a 32-bit serial as two 16-bit limbs:    *)
(* TLC integers are 32-bit signed) or <<0, id>>.                               *)
(* TSIG is abstract here (octets and HMAC: Tsig.tla / C11).  Every envelope    *)
(* has an identity `mid' standing for its MAC (0 = the MAC of the query); a    *)
(* signature is <<key, mid of the envelope it is chained on, timers-only (0/1),*)
(* mac>>: exactly what the MAC of RFC 8945 5.3.1 binds together.  mac = 1: the *)
(* full HMAC of the content as received; 0: not that under any reading (the    *)
(* content was altered after signing, or the MAC field is empty, shorter than  *)
(* max(10, half the hash) octets, or longer than the hash: RFC 8945 5.2.2.1);  *)
(* 2: the right HMAC truncated to at least max(10, half) octets -- AMBIG: RFC  *)
(* 8945 lets local policy accept it, the library implements no truncation; the *)
(* receiver's status becomes "ambig" and nothing is asserted from there on.    *)
EXTENDS Bytes

SOA(s)    == <<1, s[1], s[2]>>
Rec(i)    == <<0, i>>
IsSOA(r)  == r[1] = 1
Serial(r) == <<r[2], r[3]>>

-----------------------------------------------------------------------------
(* RFC 1982, SERIAL_BITS = 32 *)

SDiff(a, b) ==          \* (a - b) mod 2^32
  LET lo == a[2] - b[2]
      hi == a[1] - b[1] - (IF lo < 0 THEN 1 ELSE 0)
  IN << hi % 65536, lo % 65536 >>

\* a is newer than b: 0 < (a - b) mod 2^32 < 2^31
SerialGT(a, b)  == a # b /\ SDiff(a, b)[1] < 32768
\* RFC 1982 3.2 leaves the comparison undefined when the distance is exactly 2^31
SerialUndef(a, b) == SDiff(a, b) = <<32768, 0>>

-----------------------------------------------------------------------------
(* Complete transfers, as grammar *)

SOAPos(R) == { i \in 1..Len(R) : IsSOA(R[i]) }
NthSOA(R, k) == CHOOSE i \in SOAPos(R) : Cardinality({ j \in SOAPos(R) : j <= i }) = k   \* position of the k-th SOA

\* RFC 5936 2.2: SOA(s) Rec* SOA(s)
AxfrDone(R) ==
  /\ Len(R) >= 2 /\ SOAPos(R) = {1, Len(R)}
  /\ Serial(R[Len(R)]) = Serial(R[1])

\* RFC 1995 4: SOA(s) ( SOA(o) Rec* SOA(n) Rec* )+ SOA(s), the last n being s and no other one
Incremental(R) ==
  LET m == Cardinality(SOAPos(R)) IN
  /\ Len(R) >= 4 /\ m >= 4 /\ m % 2 = 0
  /\ {1, 2, Len(R)} \subseteq SOAPos(R)
  /\ LET s == Serial(R[1])
         k == (m - 2) \div 2                                     \* number of difference sequences
         old(j) == Serial(R[NthSOA(R, 2 * j)])
         new(j) == Serial(R[NthSOA(R, 2 * j + 1)]) IN
     /\ Serial(R[Len(R)]) = s
     /\ new(k) = s
     /\ \A j \in 1..k : old(j) # s
     /\ \A j \in 1..(k - 1) : new(j) # s

\* q: the serial the client has (the SOA in the authority section of its query)
IxfrDone(R, q) ==
  /\ Len(R) >= 1 /\ IsSOA(R[1])
  /\ IF ~SerialGT(Serial(R[1]), q)
     THEN Len(R) = 1                       \* RFC 1995 2/4: the server is not newer: its SOA alone, "up to date"
     ELSE AxfrDone(R) \/ Incremental(R)    \* AXFR-style fallback, or incremental

Done(mode, q, R) == IF mode = "axfr" THEN AxfrDone(R) ELSE IxfrDone(R, q)

\* the shortest complete prefix (0 = none): where the transfer ends
EndPoint(mode, q, R) ==
  LET ps == { p \in 1..Len(R) : Done(mode, q, SubSeq(R, 1, p)) } IN
  IF ps = {} THEN 0 ELSE CHOOSE p \in ps : \A p2 \in ps : p <= p2

-----------------------------------------------------------------------------
(* Envelopes *)

NoSig == <<>>
Env(recs) == [recs |-> recs, id |-> TRUE, rcode |-> 0, sig |-> NoSig, mid |-> 0, cut |-> FALSE, gap |-> 0]

(* Time.  The sender paces the stream as it likes: `gap' of an envelope is the   *)
(* time, in ticks, the receiver waits for it -- from the moment it starts to    *)
(* read (query sent / previous envelope handed over) to the arrival of the      *)
(* envelope.  Transfer.ReadTimeout (TimeoutTicks ticks) bounds the wait for ONE *)
(* envelope: a sender silent for longer has ended the stream early (error);     *)
(* the duration of the whole transfer -- the sum of the gaps -- is not bounded  *)
(* by anything: a big zone, a slow link or a pacing sender is a valid transfer. *)
TimeoutTicks == 3
Late(e) == e.gap > TimeoutTicks

(* Names.  Domain names compare case-insensitively (RFC 1035 2.3.3, RFC 4343):  *)
(* the spelling of the zone name in the query and the spelling of the owner     *)
(* names in the answer (each one of Spellings) denote the same zone whatever    *)
(* they are.  The receiver below is a function of record types, serials,        *)
(* header and signature only: the spellings are parameters of a behaviour on    *)
(* which nothing depends (records are delivered in the spelling received).      *)
Spellings == {"lower", "upper", "mixed", "mixed2"}

\* cut R into chunks of the given lengths (0 = a message without answer records)
RECURSIVE Chunks(_, _)
Chunks(R, lens) == IF lens = <<>> THEN <<>>
                   ELSE <<SubSeq(R, 1, Head(lens))>> \o Chunks(SubSeq(R, Head(lens) + 1, Len(R)), Tail(lens))

\* all ways to write n as an ordered sum of positive parts
RECURSIVE Compositions(_)
Compositions(n) == IF n = 0 THEN {<<>>}
                   ELSE UNION { { <<k>> \o c : c \in Compositions(n - k) } : k \in 1..n }

\* the sender gives envelope i the identity i and signs it over the previous one (0 = the query),
\* with the full variables for the first envelope and timers only afterwards; keys[i] is the key it uses
SignAll(envs, keys) ==
  [i \in 1..Len(envs) |-> [envs[i] EXCEPT !.mid = i, !.sig = <<keys[i], i - 1, IF i = 1 THEN 0 ELSE 1, 1>>]]

-----------------------------------------------------------------------------
(* The receiver.  status: "more" | "done" | "error" | "ambig"                 *)

RInit == [first |-> TRUE, n |-> 0, axfr |-> TRUE, serial |-> <<0, 0>>,
                macPrev |-> 0, timersOnly |-> FALSE, status |-> "more", delivered |-> <<>>, used |-> 0]

\* one record
RRec(mode, q, r, rec) ==
  IF r.status # "more" THEN r                                  \* what follows the closing SOA in its envelope is not looked at
  ELSE IF r.first THEN                                         \* (an SOA: checked by RStep)
    LET r1 == [r EXCEPT !.first = FALSE, !.serial = Serial(rec), !.n = 1] IN
    IF mode = "ixfr" /\ ~SerialGT(Serial(rec), q) THEN [r1 EXCEPT !.status = "done"] ELSE r1
  ELSE IF ~IsSOA(rec) THEN r
  ELSE IF mode = "axfr" THEN
    [r EXCEPT !.n = 2, !.status = IF Serial(rec) = r.serial THEN "done" ELSE "error"]
  ELSE IF Serial(rec) = r.serial THEN
    LET n1 == r.n + 1 IN
    [r EXCEPT !.n = n1, !.status = IF (r.axfr /\ n1 = 2) \/ n1 = 3 THEN "done" ELSE "more"]
  ELSE [r EXCEPT !.axfr = FALSE]                               \* an SOA with another serial: this is an incremental transfer

RECURSIVE RScan(_, _, _, _, _)
RScan(mode, q, r, recs, i) == IF i > Len(recs) THEN r ELSE RScan(mode, q, RRec(mode, q, r, recs[i]), recs, i + 1)

SigOK(r, e, key)    == e.sig = <<key, r.macPrev, IF r.timersOnly THEN 1 ELSE 0, 1>>
SigAmbig(r, e, key) == e.sig = <<key, r.macPrev, IF r.timersOnly THEN 1 ELSE 0, 2>>

Fail(r) == [r EXCEPT !.status = "error"]

\* one envelope.  tsig: the receiver has a key configured (then EVERY envelope must verify)
RStep(mode, q, tsig, key, r, e) ==
  IF Late(e) THEN Fail(r)                                       \* the sender was silent for longer than the read timeout
  ELSE IF e.cut THEN Fail(r)                                    \* the connection ended inside the message
  ELSE IF tsig /\ SigAmbig(r, e, key) THEN [r EXCEPT !.status = "ambig"]
  ELSE IF tsig /\ ~SigOK(r, e, key) THEN Fail(r)
  ELSE IF ~e.id THEN Fail(r)
  ELSE IF e.rcode # 0 THEN Fail(r)                              \* in any envelope
  ELSE IF r.first /\ (e.recs = <<>> \/ ~IsSOA(e.recs[1])) THEN Fail(r)
  ELSE LET r1 == RScan(mode, q, r, e.recs, 1) IN
       IF r1.status = "error" THEN r1
       ELSE [r1 EXCEPT !.delivered = Append(@, e.recs), !.macPrev = e.mid, !.timersOnly = TRUE]

\* the stream ended (connection closed or silent) while more was expected
REnd(r) == IF r.status = "more" THEN Fail(r) ELSE r

RECURSIVE RRun(_, _, _, _, _, _, _)
RRun(mode, q, tsig, key, r, envs, i) ==
  IF r.status # "more" THEN r
  ELSE IF i > Len(envs) THEN REnd(r)
  ELSE RRun(mode, q, tsig, key, [RStep(mode, q, tsig, key, r, envs[i]) EXCEPT !.used = i], envs, i + 1)

(* The consumer.  Transfer.In hands every envelope to its caller over an       *)
(* unbuffered channel: the receiver cannot proceed before the consumer took    *)
(* the previous envelope, and the consumer may be arbitrarily slow (it writes  *)
(* a zone to disk between two receives).  Handoff: `pending' is the envelope   *)
(* offered and not yet taken (at most one), `taken' what the consumer has.     *)
(* Whatever the pace, the consumer ends up with exactly what RRun delivers --  *)
(* every envelope and the error, if any -- before the channel is closed:       *)
(* MC_Xfr runs the consumer as a process of its own (actions Recv / Consume).    *)
HandoffOK(delivered, pending, taken) ==
  /\ Len(pending) <= 1
  /\ taken \o pending = delivered

(* What the user of Transfer.In must observe: the envelopes delivered without *)
(* error, then an error envelope iff err, then the channel closed and the     *)
(* connection closed; `used' envelopes were consumed from the connection.     *)
Observe(mode, q, tsig, key, envs) ==
  LET r == RRun(mode, q, tsig, key, RInit, envs, 1) IN
  [delivered |-> r.delivered, err |-> r.status = "error", complete |-> r.status = "done", ambig |-> r.status = "ambig",
   used |-> r.used]
=============================================================================
