---------------------------- MODULE Gen_PrivateRR ----------------------------
(* Every behaviour of at most N actions (N = 4: 54 241 behaviours) as one       *)
(* vector: the actions with the spelling given to PrivateHandle, and after each *)
(* the expected observation (admissible sets for the AMBIG components).         *)
EXTENDS PrivateRR, GenBase

CONSTANTS N, Len4Shard, Len4Shards     \* behaviours of exactly N actions are sharded (quick tier takes one shard)

VARIABLES v

ActSeq ==
  << [op |-> "handle", sp |-> "priva", code |-> 65280, gen |-> "A"], [op |-> "handle", sp |-> "priva", code |-> 65280, gen |-> "B"],
     [op |-> "handle", sp |-> "priva", code |-> 65281, gen |-> "A"], [op |-> "handle", sp |-> "priva", code |-> 65281, gen |-> "B"],
     [op |-> "handle", sp |-> "PRIVB", code |-> 65280, gen |-> "A"], [op |-> "handle", sp |-> "PRIVB", code |-> 65280, gen |-> "B"],
     [op |-> "handle", sp |-> "PRIVB", code |-> 65281, gen |-> "A"], [op |-> "handle", sp |-> "PRIVB", code |-> 65281, gen |-> "B"],
     [op |-> "handle", sp |-> "MX", code |-> 65280, gen |-> "A"], [op |-> "handle", sp |-> "MX", code |-> 65280, gen |-> "B"],
     [op |-> "handle", sp |-> "MX", code |-> 65281, gen |-> "A"], [op |-> "handle", sp |-> "MX", code |-> 65281, gen |-> "B"],
     [op |-> "remove", sp |-> "", code |-> 65280, gen |-> ""], [op |-> "remove", sp |-> "", code |-> 65281, gen |-> ""],
     [op |-> "remove", sp |-> "", code |-> 65282, gen |-> ""] >>
Act(i) == LET a == ActSeq[i] IN [op |-> a.op, sp |-> a.sp, mn |-> IF a.op = "handle" THEN UpperOf[a.sp] ELSE "", code |-> a.code, gen |-> a.gen]
TextOf(k) == <<115, 48 + k>>

InShard(q) == Len(q) < N \/ SumSeq([i \in 1..Len(q) |-> i * q[i]]) % Len4Shards = Len4Shard

Init == v \in UNION { [1..k -> 1..Len(ActSeq)] : k \in 1..N } /\ InShard(v)
Next == UNCHANGED v

RECURSIVE Steps(_, _, _)
Steps(s, q, k) ==
  IF q = <<>> THEN <<>>
  ELSE LET a == Act(Head(q))
           s2 == Make(Apply(s, a), TextOf(k)) IN
       << [act |-> a, text |-> TextOf(k), exp |-> Obs(s2)] >> \o Steps(s2, Tail(q), k + 1)

Out == Emit([kind |-> "beh", steps |-> Steps(InitState, v, 1)])
=============================================================================
