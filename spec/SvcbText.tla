------------------------------ MODULE SvcbText ------------------------------
(* The presentation format of SVCB / HTTPS RDATA (RFC 9460 2.1, Appendix A;     *)
(* RFC 9461 5 dohpath; RFC 9540 4 ohttp) as a READER: text -> the RDATA octets  *)
(* (WireRR!SvcbLayout), or "not a record".                                      *)
(*                                                                              *)
(*   RDATA      = SvcPriority TargetName *(SvcParam)   separated by blanks      *)
(*   SvcParam   = SvcParamKey ["=" SvcParamValue]; no key twice                 *)
(*   key        = a registered name, or "key" NNNNN (no leading zeros, < 65535) *)
(*                for ANY key -- then the value is the wire value as a          *)
(*                char-string (2.1: "arbitrary keys can be represented using    *)
(*                the unknown-key presentation format")                         *)
(*   value      = a <character-string>: quoted or contiguous, \DDD and \X       *)
(*                escapes (Appendix A); omitted "=value" means the empty value  *)
(*   value-list = the decoded char-string split at unescaped commas, "\," and   *)
(*                "\\" being the only escapes at this SECOND level (A.1)        *)
(*   by key: mandatory = key names (value-list), no "mandatory", no duplicate,  *)
(*           every one present (8); alpn = value-list of 1..255-octet ids;      *)
(*           no-default-alpn, ohttp = no value; port = decimal <= 65535;        *)
(*           ipv4hint / ipv6hint = comma-separated addresses, at least one;     *)
(*           ech = base64; dohpath and unknown keys = the octets                *)
(* On the wire the parameters travel in increasing key order (2.2).             *)
(* C05 reads the library's own String() with the values pre-decoded in Go; this *)
(* module decodes the values itself and is also used to WRITE test texts        *)
(* (every spelling in SvcbTextCases is judged by this reader).                  *)
EXTENDS Fields

cEQ == 61
cCOMMA == 44

IndexOf(s, c) == IF \E i \in 1..Len(s) : s[i] = c THEN CHOOSE i \in 1..Len(s) : s[i] = c /\ \A j \in 1..(i - 1) : s[j] # c ELSE 0

\* ---- one item: key, value octets
\* item = raw text `key', `key=raw' or `key="raw"' (PresentRR!SvcItems puts the quotes back)
ItemParts(item) ==
  LET eq  == IndexOf(item, cEQ)
      key == IF eq = 0 THEN item ELSE SubSeq(item, 1, eq - 1)
      rv  == IF eq = 0 THEN <<>> ELSE Drop(item, eq)
      quoted == Len(rv) >= 2 /\ rv[1] = cQUOTE /\ rv[Len(rv)] = cQUOTE
      inner  == IF quoted THEN SubSeq(rv, 2, Len(rv) - 1) ELSE rv
      u   == Unesc(inner)
  IN [key |-> key, has |-> eq # 0, quoted |-> quoted,
      ok |-> u.ok /\ (quoted \/ ~(\E i \in 1..Len(rv) : rv[i] = cQUOTE)),
      v |-> u.v,
      bare |-> eq # 0 /\ rv = <<>>]                  \* `key=' with nothing behind it

KeyOf(keytext) ==
  LET m == LookUp(SvcKeyTable, keytext) IN
  IF m # -1 THEN m
  ELSE IF IsPrefixOf(kKEY, keytext) /\ Len(keytext) > 3 /\ (keytext[4] # 48 \/ Len(keytext) = 4)
       THEN LET d == U16Of(Drop(keytext, 3)) IN IF d.ok /\ d.v < 65535 THEN d.v ELSE -1
  ELSE -1
IsGenericKey(keytext) == LookUp(SvcKeyTable, keytext) = -1

\* ---- value-list (A.1): split at unescaped commas; "\," and "\\" are the escapes
RECURSIVE VLFrom(_, _, _, _)
VLFrom(v, i, cur, acc) ==
  IF i > Len(v) THEN [ok |-> TRUE, v |-> Append(acc, cur)]
  ELSE IF v[i] = cCOMMA THEN VLFrom(v, i + 1, <<>>, Append(acc, cur))
  ELSE IF v[i] = cBSL THEN
         (IF i < Len(v) /\ v[i + 1] \in {cCOMMA, cBSL} THEN VLFrom(v, i + 2, Append(cur, v[i + 1]), acc)
          ELSE [ok |-> FALSE, v |-> <<>>])
  ELSE VLFrom(v, i + 1, Append(cur, v[i]), acc)
ValueList(v) == VLFrom(v, 1, <<>>, <<>>)

AllOK(rs) == \A i \in 1..Len(rs) : rs[i].ok

\* ---- the value of key k from the decoded char-string v (has: an "=" was written)
\* Besides what is refused outright there are two softer classes:
\*   amb    the text is a questionable spelling of a definite value (an empty ech): refusing it, or
\*          accepting it with exactly these octets, are both admitted
\*   loose  the text is not compliant (RFC 9460 8, 7.1.1, Appendix D.3) for a reason the library's
\*          documentation leaves to its caller ("It is incumbent upon the user of this library to
\*          reject the RRSet if ... mandatory is included as one of the keys of mandatory / [a] key is
\*          listed multiple times / ... lists at least one key"; "must ensure that at least one protocol
\*          is listed when alpn is present"): refusing or accepting, with whatever octets, is admitted
NoValue(k) == k \in {2, 8}
Prm(k, raw, f) == [key |-> k, raw |-> raw, f |-> f, amb |-> FALSE, loose |-> FALSE]
ParamOf(k, generic, has, v) ==
  IF generic \/ k > 8 THEN Good(Prm(k, TRUE, v))                            \* keyNNNNN: the wire value itself
  ELSE CASE k = 0 -> LET l == ValueList(v) IN
                     IF ~has \/ v = <<>> THEN Good([Prm(0, FALSE, [Code |-> <<>>]) EXCEPT !.loose = TRUE])
                     ELSE IF ~l.ok THEN Bad("mandatory-syntax")
                     ELSE IF \E i \in 1..Len(l.v) : l.v[i] = <<>> THEN Bad("list-empty-item")
                     ELSE LET cs == [i \in 1..Len(l.v) |-> KeyOf(l.v[i])] IN
                          IF \E i \in 1..Len(cs) : cs[i] = -1 THEN Bad("mandatory-key")
                          ELSE Good([Prm(0, FALSE, [Code |-> SortedSeq(Range(cs))]) EXCEPT !.loose = ~Distinct(cs) \/ 0 \in Range(cs)])
         [] k = 1 -> LET l == ValueList(v) IN
                     IF ~has \/ v = <<>> THEN Good([Prm(1, FALSE, [Alpn |-> <<>>]) EXCEPT !.loose = TRUE])
                     ELSE IF ~l.ok THEN Bad("alpn-escape")
                     ELSE IF \E i \in 1..Len(l.v) : Len(l.v[i]) = 0 THEN Bad("alpn-empty-id")
                     ELSE IF \E i \in 1..Len(l.v) : Len(l.v[i]) > 255 THEN Bad("alpn-long-id")
                     ELSE Good(Prm(1, FALSE, [Alpn |-> l.v]))
         [] NoValue(k) -> IF v # <<>> THEN Bad("value-not-allowed") ELSE Good(Prm(k, TRUE, <<>>))
         [] k = 3 -> LET d == U16Of(v) IN IF ~has \/ ~d.ok THEN Bad("port") ELSE Good(Prm(3, FALSE, [Port |-> d.v]))
         [] k = 4 -> LET as == [i \in 1..Len(Split(v, cCOMMA)) |-> IP4Of(Split(v, cCOMMA)[i])] IN
                     IF ~has \/ v = <<>> THEN Bad("hint-missing")
                     ELSE IF \E i \in 1..Len(as) : Split(v, cCOMMA)[i] = <<>> THEN Bad("list-empty-item")
                     ELSE IF ~AllOK(as) THEN Bad("ipv4hint")
                     ELSE Good(Prm(4, FALSE, [Hint |-> [i \in 1..Len(as) |-> as[i].v]]))
         [] k = 6 -> LET as == [i \in 1..Len(Split(v, cCOMMA)) |-> Rv!ParseV6(Split(v, cCOMMA)[i])] IN
                     IF ~has \/ v = <<>> THEN Bad("hint-missing")
                     ELSE IF \E i \in 1..Len(as) : Split(v, cCOMMA)[i] = <<>> THEN Bad("list-empty-item")
                     ELSE IF ~AllOK(as) THEN Bad("ipv6hint")
                     ELSE Good(Prm(6, FALSE, [Hint |-> [i \in 1..Len(as) |-> as[i].v]]))
         [] k = 5 -> LET d == B64Dec(v) IN
                     IF ~d.ok THEN Bad("ech")
                     ELSE Good([Prm(5, FALSE, [ECH |-> d.v]) EXCEPT !.amb = (v = <<>>)])
         [] k = 7 -> Good(Prm(7, FALSE, [Template |-> v]))                  \* the template itself is not judged

\* ---- the wire form of one parameter
ValueOctets(p) ==
  IF p.raw THEN p.f
  ELSE EncSub(SvcbLayoutOf(p.key), p.f)
EncParam(p) == LET b == ValueOctets(p) IN U16(p.key) \o U16(Len(b)) \o b

RECURSIVE ReadSvcItems(_, _, _)
ReadSvcItems(items, i, acc) ==
  IF i > Len(items) THEN Good(acc)
  ELSE LET it == ItemParts(items[i])
           k  == KeyOf(it.key) IN
       IF ~it.ok THEN Bad("value-syntax")
       ELSE IF k = -1 THEN Bad("key")
       ELSE LET p == ParamOf(k, IsGenericKey(it.key), it.has, it.v) IN
            IF ~p.ok THEN p ELSE ReadSvcItems(items, i + 1, Append(acc, p.v))

ByKey(ps) == LET ks == SortedSeq({ ps[i].key : i \in 1..Len(ps) }) IN
             [j \in 1..Len(ks) |-> ps[CHOOSE i \in 1..Len(ps) : ps[i].key = ks[j]]]

\* RDATA text -> [ok, why, wire, ambig, loose]
\*   ok /\ ~ambig /\ ~loose   the text must be read, to exactly these octets
\*   ~ok /\ ~loose            the text must be refused
\*   ambig                    refused, or read to exactly these octets (also: `key=' with nothing
\*                            behind it; a target that is not fully qualified, read under the root)
\*   loose                    refused or read, to whatever octets (see ParamOf; and: mandatory lists a
\*                            key that is absent, RFC 9460 8)
No(why) == [ok |-> FALSE, why |-> why, wire |-> <<>>, ambig |-> FALSE, loose |-> FALSE]
ReadSvcb(text) ==
  LET L  == Lex(text)
      ts == Items(L.toks) IN
  IF L.ill # "" \/ Len(ts) < 2 THEN No("syntax")
  ELSE
  LET pr == IF ts[1].q THEN [ok |-> FALSE, v |-> 0] ELSE U16Of(ts[1].raw)
      tg == IF ts[2].q THEN [st |-> "bad", fq |-> FALSE, labels |-> <<>>] ELSE Parse(ts[2].raw)
      items == SvcItems(SubSeq(ts, 3, Len(ts)), 1)
      r  == ReadSvcItems(items, 1, <<>>) IN
  IF ~pr.ok THEN No("priority")
  ELSE IF tg.st # "ok" \/ ~ValidName(tg.labels) \/ WireLen(tg.labels) > MaxName THEN No("target")
  ELSE IF ~r.ok THEN No(r.why)
  ELSE LET ps == r.v
           keys == [i \in 1..Len(ps) |-> ps[i].key] IN
       IF ~Distinct(keys) THEN No("duplicate-key")
       ELSE LET wire == U16(pr.v) \o EncName(tg.labels) \o Concat([i \in 1..Len(ps) |-> EncParam(ByKey(ps)[i])])
                mand == { i \in 1..Len(ps) : ps[i].key = 0 /\ ~ps[i].raw }
                missing == \E i \in mand : \E c \in Range(ps[i].f.Code) : c \notin Range(keys)
                bare == \E i \in 1..Len(items) : ItemParts(items[i]).bare
                loose == missing \/ \E i \in 1..Len(ps) : ps[i].loose
            IN [ok |-> ~loose, why |-> IF loose THEN "left-to-the-caller" ELSE "", wire |-> wire,
                ambig |-> bare \/ ~tg.fq \/ \E i \in 1..Len(ps) : ps[i].amb, loose |-> loose]
=============================================================================
