----------------------------- MODULE MC_Truncate -----------------------------
(* Every abstract message with up to two records per section x every size:    *)
(* the algorithm satisfies the relation.  `Variant' selects deliberately      *)
(* broken algorithms for which the relation must FAIL (non-vacuity).          *)
EXTENDS Truncate, TLC

CONSTANTS Variant,      \* "impl" | "ge" (l >= size cuts) | "noopt" (OPT length not subtracted) | "optover" (OPT measured too long) | "tcanswer" (TC only when Answer is cut)
          MaxAn, MaxNs, MaxAr, MaxSize

VARIABLES m, size

RecU == { [name |-> n, full |-> f, short |-> s] : n \in {1, 2}, f \in {2, 3}, s \in {1} }
SecU(mx) == UNION { [1..k -> RecU] : k \in 0..mx }
MsgU == { [hq |-> h, an |-> a, ns |-> b, ar |-> c, opt |-> o, tc |-> t] :
            h \in {2}, a \in SecU(MaxAn), b \in SecU(MaxNs), c \in SecU(MaxAr), o \in {0, 1}, t \in BOOLEAN }

Init == m \in MsgU /\ size \in 0..MaxSize
Next == UNCHANGED <<m, size>>

\* broken variants
LoopGE(recs, i, sz, l, seen) ==       \* off by one: a record that fits exactly is cut
  LET r == Loop(recs, i, sz - 1, l, seen) IN r
BrokenImpl ==
  CASE Variant = "ge" ->
         LET lim == Limit(size) IN
         IF UncompLen(m) <= lim THEN m
         ELSE LET sz == lim - m.opt
                  a == IF m.hq < sz THEN LoopGE(m.an, 1, sz, m.hq, {}) ELSE [l |-> m.hq, n |-> 0, seen |-> {}]
              IN [m EXCEPT !.an = Prefix(m.an, a.n), !.ns = <<>>, !.ar = <<>>,
                           !.tc = m.tc \/ a.n < Len(m.an) \/ Len(m.ns) > 0 \/ Len(m.ar) > 0]
    [] Variant = "noopt" -> TruncImpl([m EXCEPT !.opt = 0], size)
    [] Variant = "optover" -> TruncImpl([m EXCEPT !.opt = IF m.opt > 0 THEN m.opt + 1 ELSE 0], size)   \* the OPT is measured one octet too long
    [] Variant = "tcanswer" -> LET r == TruncImpl(m, size) IN [r EXCEPT !.tc = m.tc \/ Len(r.an) < Len(m.an)]
    [] OTHER -> TruncImpl(m, size)

Result == IF Variant \in {"noopt", "optover"} THEN [BrokenImpl EXCEPT !.opt = m.opt] ELSE BrokenImpl

Holds == TruncOK(Facts(m, size, Result))

\* determinism on this fragment: the relation pins the result down to what the algorithm computes
Unique ==
  Variant = "impl" =>
    \A a \in 0..Len(m.an), b \in 0..Len(m.ns), c \in 0..Len(m.ar) :
      LET r == [m EXCEPT !.an = Prefix(m.an, a), !.ns = Prefix(m.ns, b), !.ar = Prefix(m.ar, c),
                         !.tc = m.tc \/ a < Len(m.an) \/ b < Len(m.ns) \/ c < Len(m.ar)]
      IN TruncOK(Facts(m, size, r)) /\ (m.hq + m.opt <= Limit(size)) => r = TruncImpl(m, size)
=============================================================================
