#!/usr/bin/env python3
"""Writes SvcbTextCases.tla: SVCB RDATA texts (inputs only) for Gen_SvcbText / MC_SvcbText.
Anchors: the test vectors of RFC 9460 Appendix D with the wire form the RFC prints (MC_SvcbText
checks the reader against them); everything else is judged by the reader alone.
   python3 spec/SvcbTextCases.py > spec/SvcbTextCases.tla
"""
FOO_COM = b"\x03foo\x07example\x03com\x00"
FOO_ORG = b"\x03foo\x07example\x03org\x00"

cases = []   # (text, anchor: "ok" | "fail" | "", wire bytes)


def ok(text, wire):
    cases.append((text, "ok", wire))


def fail(text):
    cases.append((text, "fail", b""))


def free(text):
    cases.append((text, "", b""))


# ---- RFC 9460 D.1 / D.2
ok("0 foo.example.com.", b"\x00\x00" + FOO_COM)
ok("1 .", b"\x00\x01\x00")
ok("16 foo.example.com. port=53", b"\x00\x10" + FOO_COM + b"\x00\x03\x00\x02\x00\x35")
ok("1 foo.example.com. key667=hello", b"\x00\x01" + FOO_COM + b"\x02\x9b\x00\x05hello")
ok('1 foo.example.com. key667="hello\\210qoo"', b"\x00\x01" + FOO_COM + b"\x02\x9b\x00\x09hello\xd2qoo")
ok('1 foo.example.com. ( ipv6hint="2001:db8::1,2001:db8::53:1" )', b"\x00\x01" + FOO_COM + b"\x00\x06\x00\x20"
   + bytes.fromhex("20010db8000000000000000000000001") + bytes.fromhex("20010db8000000000000000000530001"))
ok("1 example.com. ipv6hint=2001:db8:122:344::192.0.2.33", b"\x00\x01\x07example\x03com\x00\x00\x06\x00\x10"
   + bytes.fromhex("20010db801220344") + bytes.fromhex("00000000c0000221"))
ok("16 foo.example.org. ( alpn=h2,h3-19 mandatory=ipv4hint,alpn ipv4hint=192.0.2.1 )", b"\x00\x10" + FOO_ORG
   + b"\x00\x00\x00\x04\x00\x01\x00\x04" + b"\x00\x01\x00\x09\x02h2\x05h3-19" + b"\x00\x04\x00\x04\xc0\x00\x02\x01")
ok('16 foo.example.org. alpn="f\\\\\\\\oo\\\\,bar,h2"', b"\x00\x10" + FOO_ORG + b"\x00\x01\x00\x0c\x08f\\oo,bar\x02h2")
ok("16 foo.example.org. alpn=f\\\\\\092oo\\092,bar,h2", b"\x00\x10" + FOO_ORG + b"\x00\x01\x00\x0c\x08f\\oo,bar\x02h2")
# ---- RFC 9460 D.3 (not compliant)
fail("1 foo.example.com. ( key123=abc key123=def )")
fail("1 foo.example.com. mandatory")
fail("1 foo.example.com. alpn")
fail("1 foo.example.com. port")
fail("1 foo.example.com. ipv4hint")
fail("1 foo.example.com. ipv6hint")
fail("1 foo.example.com. no-default-alpn=abc")
fail("1 foo.example.com. mandatory=alpn")
fail("1 foo.example.com. ( mandatory=alpn,alpn alpn=h1 )")

# ---- variants, judged by the reader alone
T = "1 t.example. "
for v in ["port=0", "port=65535", "port=65536", "port=-1", "port=", 'port="443"', "port=4\\0523", "port=443 port=80", "port=44a",
          "key3=\\001\\187", "key3=ab", "key0=\\000\\001 alpn=h2", "key65534=x", "key65535=x", "key065=x", "key=x", "KEY7=x", "Port=1",
          "key9", "key9=", 'key9=""', 'key9="a b"', "key9=a\\ b", "key9=a\\032b", 'key9="a\\"b"', "key9=a\\\\b", "key9=\\000\\255",
          'key9="\\', "key9=\\25", "key9=\\256", "key9=a;b", 'key9="a;b"', "key9=a=b", "=x", "key9=a key10=b key8", "key10=b key9=a",
          "no-default-alpn", "no-default-alpn=", 'no-default-alpn=""', "ohttp", "ohttp=1", "alpn=h2 no-default-alpn",
          "alpn=h2", "alpn=h2,h3", 'alpn="h2,h3"', "alpn=h2,", "alpn=,h2", "alpn=", 'alpn=""', "alpn=h2,,h3", "alpn=h\\,2", "alpn=h\\\\,2",
          'alpn="a b,c"', "alpn=a\\044b", "alpn=a\\\\\\044b", "alpn=" + "x" * 255, "alpn=" + "x" * 256, "alpn=\\\\x",
          "ipv4hint=1.2.3.4", "ipv4hint=1.2.3.4,5.6.7.8", 'ipv4hint="1.2.3.4,5.6.7.8"', "ipv4hint=1.2.3.4,", "ipv4hint=1.2.3", "ipv4hint=1.2.3.256",
          "ipv4hint=::1", "ipv4hint=1.2.3.4 ipv6hint=::1", "ipv4hint=1.2.3.\\052", "ipv6hint=2001:db8::\\049", "ech=AQI\\068", 'port="\\052\\052\\051"', "ipv6hint=::", "ipv6hint=::1,2001:db8::", "ipv6hint=2001:DB8::A", "ipv6hint=1.2.3.4",
          "ipv6hint=2001:db8::1::2", "ipv6hint=2001:db8:0:0:0:0:0:1", "ipv6hint=12345::", "ipv6hint=::1,",
          "ech=AQID", "ech=AQI=", "ech=AQ==", "ech=AQ", "ech=", "ech", 'ech="AQID"', "ech=A*ID", "ech=AQIDBA==",
          "dohpath=/dns-query{?dns}", 'dohpath="/q{?dns}"', "dohpath=/a\\,b", "dohpath", "dohpath=", "dohpath=/\\200",
          "mandatory=port port=1", "mandatory=port,alpn alpn=h2 port=1", "mandatory=alpn,port alpn=h2 port=1", "mandatory=key9 key9=x",
          "mandatory=key3 port=1", "mandatory=port", "mandatory=mandatory", "mandatory=port,port port=1", "mandatory= port=1", "mandatory=bogus port=1",
          "mandatory=port, port=1", 'mandatory="port,alpn" alpn=h2 port=1', "mandatory=no-default-alpn alpn=h2 no-default-alpn",
          "alpn=h2 port=443 ipv4hint=192.0.2.1 ech=AQID ipv6hint=2001:db8::1 dohpath=/q ohttp key9=z",
          "key9=z ohttp dohpath=/q ipv6hint=2001:db8::1 ech=AQID ipv4hint=192.0.2.1 port=443 alpn=h2"]:
    free(T + v)
for head in ["0 .", "65535 .", "65536 .", "-1 .", "1", "", "x .", "1 t.example", "1 a..b.", "1 " + "a" * 63 + ".", "1 " + "a" * 64 + ".", '"1" .', '1 "t.example."',
             "1 \\116.example. port=1", "01 . port=1", "1 . ( port=1\n alpn=h2 ) ; comment", "1 . port=1 ; alpn=h2"]:
    free(head)


def tla_seq(b):
    return "<<" + ", ".join(str(x) for x in b) + ">>"


print("---------------------------- MODULE SvcbTextCases ----------------------------")
print("(* GENERATED by spec/SvcbTextCases.py -- edit the lists there.  SVCB RDATA texts:  *)")
print("(* [text, anchor (\"ok\" / \"fail\": RFC 9460 Appendix D says so; \"\": no anchor), wire]. *)")
print("Cases == <<")
rows = []
for text, anchor, wire in cases:
    rows.append('  [text |-> %s, anchor |-> "%s", wire |-> %s]   \\* %s' % (tla_seq(text.encode("latin1")), anchor, tla_seq(wire),
                                                                          text.replace("\n", "\\n")[:90]))
# the separator must precede the comment
out = []
for i, r in enumerate(rows):
    body, cm = r.split("   \\* ", 1)
    out.append(body + ("," if i < len(rows) - 1 else "") + "   \\* " + cm)
print("\n".join(out))
print(">>")
print("=============================================================================")
