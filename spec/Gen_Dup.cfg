CONSTANTS
  MaxList = 0
INIT GInit
NEXT GNext
INVARIANT Out
