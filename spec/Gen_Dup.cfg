CONSTANTS
  MaxLabel = 63
  MaxName = 255
  MaxList = 0
INIT GInit
NEXT GNext
INVARIANT Out
