------------------------------ MODULE MC_Names ------------------------------
(* Bounded exhaustive check of the Names module on itself: with MaxLabel = 2   *)
(* and MaxName = 8 TLC reaches and crosses both limits.  Each name / string of *)
(* the universe is one state.                                                  *)
EXTENDS Names

CONSTANTS Alpha,      \* octets used in labels
          Chars,      \* characters used in raw strings
          StrLen      \* raw strings up to this length

VARIABLES kind, n, s

LabelsUpTo(k) == UNION { [1..m -> Alpha] : m \in 1..k }
NameUniverse  == { <<>> }
                 \cup { <<a>> : a \in LabelsUpTo(MaxLabel + 1) }
                 \cup { <<a, b>> : a \in LabelsUpTo(MaxLabel + 1), b \in LabelsUpTo(MaxLabel + 1) }
                 \cup { <<a, b, c>> : a \in LabelsUpTo(MaxLabel), b \in LabelsUpTo(MaxLabel), c \in LabelsUpTo(MaxLabel) }
StrUniverse   == UNION { [1..m -> Chars] : m \in 0..StrLen }

Init == \/ kind = "name" /\ n \in NameUniverse /\ s = <<>>
        \/ kind = "str"  /\ s \in StrUniverse  /\ n = <<>>
Next == UNCHANGED <<kind, n, s>>

LabelsOK(x) == \A i \in 1..Len(x) : Len(x[i]) >= 1 /\ Len(x[i]) <= MaxLabel

\* ---- invariants over names
WireRoundTrip ==
  kind = "name" =>
    LET w == EncName(n)  d == DecName(w, 0) IN
    /\ Len(w) = WireLen(n)
    /\ (ValidName(n) => d.ok /\ d.name = n /\ d.next = Len(w) /\ d.hops = 0)
    /\ (~ValidName(n) /\ LabelsOK(n) => ~d.ok)                 \* too long: refused
TextRoundTrip ==
  kind = "name" =>
    LET t == Present(n)  p == Parse(t) IN
    /\ p.st = "ok" /\ p.fq /\ p.labels = n
    /\ IsFqdnSpec(t)
    /\ (Accept(t) <=> ValidName(n))
    /\ Len(p.starts) = Len(n)
Boundary ==   \* the limits are reached and crossed inside the universe
  kind = "name" => (WireLen(n) = MaxName /\ LabelsOK(n) => ValidName(n)) /\ (WireLen(n) = MaxName + 1 => ~ValidName(n))
Helpers ==
  kind = "name" =>
    LET t == Present(n)  p == Parse(t) IN
    /\ CountLabelSpec(t) = Len(n)
    /\ Len(SplitSpec(t)) = Len(n)
    /\ (n # <<>> => SplitSpec(t)[1] = 0)
    /\ \A k \in 1..Len(n) : Parse(SplitDomainNameSpec(t)[k]).labels = <<n[k]>>   \* each piece denotes its label
    /\ \A k \in 1..Len(n) : PrevLabelSpec(t, k).i = SplitSpec(t)[Len(n) - k + 1]
    /\ \A k \in 1..Len(n) :
         LET nx == NextLabelSpec(t, SplitSpec(t)[k]) IN
         IF k < Len(n) THEN nx.i = SplitSpec(t)[k+1] /\ ~nx.end ELSE nx.end
    /\ CompareSpec(t, t) = Len(n)
    /\ IsSubDomainSpec(t, t)
    /\ CompareSpec(t, CanonicalSpec(t)) = Len(n)                \* case-insensitive
    /\ CanonicalSpec(CanonicalSpec(t)) = CanonicalSpec(t)
    /\ (n # <<>> => LET rel == Sub(t, 1, Len(t) - 1) IN          \* drop the final dot: relative spelling
                     /\ (~IsFqdnSpec(rel) => FqdnSpec(rel) = t /\ Parse(rel).labels = n))

SteppersFromStarts ==   \* the steppers computed from one parse are the steppers
  LET t == s  p == Parse(t) IN          \* over the raw strings: every arrangement of dots and backslashes is among them
  kind = "str" /\ p.st = "ok" =>
    /\ \A off \in 0..Len(t) : NextLabelFrom(p.starts, Len(t), off) = NextLabelSpec(t, off)
    /\ \A k \in 0..(Len(p.starts) + 1) : PrevLabelFrom(p.starts, Len(t), k) = PrevLabelSpec(t, k)

\* ---- invariants over raw strings
StrInv ==
  kind = "str" =>
    LET p == Parse(s) IN
    /\ (p.st = "ok" => (p.fq <=> IsFqdnSpec(s)))
    /\ (p.st = "ok" /\ p.fq /\ LabelsOK(p.labels) => Parse(Present(p.labels)).labels = p.labels)
    /\ (p.st = "ok" => Len(p.starts) = Len(p.labels))
    /\ (Accept(s) => DecName(EncName(Parse(s).labels), 0).name = Parse(s).labels)
\* ---- round 7: raw spelling, pointer-aware reading
RawRoundTrip ==
  kind = "name" =>
    LET t == RawPresent(n)  p == Parse(t) IN
    /\ p.st = "ok" /\ p.fq /\ p.labels = n
    /\ CompareSpec(t, Present(n)) = Len(n)                      \* the two spellings are one name
    /\ CompareSpec(RawPresent(OtherCaseName(n)), t) = Len(n)         \* so is the other letter case
    /\ OtherCaseName(OtherCaseName(n)) = n
DenotesOwn ==   \* a name behind its own parent, shortened by a pointer to it, denotes the name; nothing else does
  kind = "name" /\ ValidName(n) /\ Len(n) >= 1 =>
    LET par == EncName(Tail(n))
        msg == par \o <<Len(n[1])>> \o n[1] \o <<192, 0>> IN
    /\ WireDenotesName(EncName(n), 0, Len(EncName(n)), n)
    /\ WireDenotesName(msg, Len(par), Len(msg), n)
    /\ (OtherCaseName(n) # n => ~WireDenotesName(msg, Len(par), Len(msg), OtherCaseName(n)))
=============================================================================
