----------------------------- MODULE TraceBase -----------------------------
(* The pattern every Trace_* specification follows.  The recorded events are  *)
(* read from trace.ndjson in the working directory; `l' is the cursor.        *)
(* Pure-function events never block: an event the specification judges wrong  *)
(* is remembered in `bad' so that the rest of the trace is still examined.    *)
(* State-machine events block (no enabled action = rejection) and the high-   *)
(* water mark names the offending line.                                       *)
EXTENDS Integers, Sequences, TLC, Json

Trace == ndJsonDeserialize("trace.ndjson")

\* register 1: high-water mark; register 2: list of bad indices
HWInit == TLCSet(1, 0) /\ TLCSet(2, <<>>)
HW(l)  == TLCSet(1, IF TLCGet(1) < l THEN l ELSE TLCGet(1))
MarkBad(l) == TLCSet(2, Append(TLCGet(2), l))

Has(e, f) == f \in DOMAIN e

Report ==
  /\ PrintT("VP:hwm=" \o ToString(TLCGet(1)))
  /\ PrintT("VP:bad=" \o ToJson(TLCGet(2)))

Accepted == Report /\ TLCGet(1) = Len(Trace)
=============================================================================
