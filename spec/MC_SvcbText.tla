---------------------------- MODULE MC_SvcbText ----------------------------
(* SvcbText.tla on itself: the reader against the test vectors of RFC 9460      *)
(* Appendix D (the wire forms printed there; the non-compliant texts of D.3)    *)
(* and structural facts on every case of the table.                             *)
EXTENDS SvcbText, SvcbTextCases

VARIABLE n
Init == n \in 1..Len(Cases)
Next == UNCHANGED n

R == ReadSvcb(Cases[n].text)

Anchors == /\ Cases[n].anchor = "ok" => R.ok /\ R.wire = Cases[n].wire
           /\ Cases[n].anchor = "fail" => ~R.ok /\ ~R.ambig          \* (R.loose: the library leaves the refusal to its caller)

\* whatever is read has the shape of SVCB RDATA: priority, an uncompressed name, parameters in
\* strictly increasing key order whose lengths add up (the reference decoder of WireRR agrees)
RECURSIVE ParamsOK(_, _, _)
ParamsOK(rd, off, last) ==
  IF off = Len(rd) THEN TRUE
  ELSE off + 4 <= Len(rd) /\ LET k == BE(SubSeq(rd, off + 1, off + 2))  l == BE(SubSeq(rd, off + 3, off + 4)) IN
       k > last /\ off + 4 + l <= Len(rd) /\ ParamsOK(rd, off + 4 + l, k)
Shape == R.ok => LET d == DecName(R.wire, 2) IN d.ok /\ ParamsOK(R.wire, d.next, -1)

\* refusals carry a reason; "ambig" only where the text is questionable
Reasons == (~R.ok => R.why # "") /\ (R.ok => R.why = "") /\ (R.loose => ~R.ok)
=============================================================================
