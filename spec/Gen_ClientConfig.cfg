INIT Init
NEXT Next
INVARIANT Out
