----------------------------- MODULE MC_Comments -----------------------------
(* Comments.tla checked on itself, exhaustively over a small universe:          *)
(*   zones  <<e1, mid, e2>>: e1 a record in one of four layouts (one line; one   *)
(*          line in parentheses; three lines; parentheses behind the RDATA with  *)
(*          a comment-only / blank line inside), its RDATA token plain, quoted   *)
(*          with ';' inside, or with an escaped \; ; on every line no comment,   *)
(*          an empty one, " c<i>" or "c<i> " (blank at the end); glued or not;   *)
(*          mid nothing / blank line / comment-only line / $TTL with a comment;  *)
(*          e2 a one-line record with or without comment; LF or CR LF; final     *)
(*          line end or not                                                      *)
(*   static invariants (state 1): the entries are well-formed; the comments read *)
(*          back from the OCTETS (ScanZone) are the model's; CommentOf is        *)
(*          admitted; "" is admitted exactly when the entry has no comment;      *)
(*          every admitted text starts with ';' and holds every comment of the   *)
(*          entry; no text is admitted for both records; a partial text is never *)
(*          admitted                                                             *)
(*   state machine: Next() / Comment() in every order, Comment() any admitted    *)
(*          spelling the first time: RegOK (what Comment() returns belongs to    *)
(*          the record most recently returned, "" after the end), Twice (a       *)
(*          second call returns the same).                                       *)
(* Variant "keep" (Next() keeps the comment of the previous record)               *)
(* and "stale-end" (the last comment survives the end) must FAIL RegOK.          *)
EXTENDS Comments

CONSTANTS Variant, Wide
VARIABLES v, sm, prev

Toks == { <<97>>, <<QUOTE, 120, SEMI, 121, QUOTE>>, <<98, BSL, SEMI, 99>> }
Lays == << << <<"H", "R">> >>,
           << <<"H", "(", "R", ")">> >>,
           << <<"H", "(">>, <<"R">>, <<")">> >>,
           << <<"H", "R", "(">>, <<>>, <<")">> >> >>
CK == {"none", "empty", "sp", "trail"}
Com(kind, k, i) == CASE kind = "none" -> <<>>
                     [] kind = "empty" -> << <<>> >>
                     [] kind = "sp" -> << <<SP, 99, 48 + k, 48 + i>> >>
                     [] kind = "trail" -> << <<99, 48 + k, 48 + i, SP>> >>
Sym(s, own, t) == CASE s = "H" -> << own, <<84, 88, 84>> >> [] s = "R" -> <<t>> [] s = "(" -> << <<LPAR>> >> [] s = ")" -> << <<RPAR>> >>
E(k, l, t, cs, glue) ==
  LET own == <<114, 48 + k, 46>> IN
  [kind |-> "rr", names |-> <<own>>, sub |-> <<>>,
   lines |-> [i \in 1..Len(Lays[l]) |-> [items |-> Concat([j \in 1..Len(Lays[l][i]) |-> Sym(Lays[l][i][j], own, t)]), com |-> Com(cs[i], k, i), glue |-> glue]]]
Mid(m) == CASE m = "nothing" -> <<>>
            [] m = "blank" -> << [kind |-> "blank", names |-> <<>>, sub |-> <<>>, lines |-> << [items |-> <<>>, com |-> <<>>, glue |-> FALSE] >>] >>
            [] m = "conly" -> << [kind |-> "conly", names |-> <<>>, sub |-> <<>>, lines |-> << [items |-> <<>>, com |-> << <<SP, 109>> >>, glue |-> TRUE] >>] >>
            [] m = "ttl"   -> << [kind |-> "dir", names |-> <<>>, sub |-> <<>>, lines |-> << [items |-> << <<36, 84, 84, 76>>, <<53>> >>, com |-> << <<SP, 116>> >>, glue |-> FALSE] >>] >>

Universe == { [l |-> lc[1], cs |-> lc[2], t |-> t, glue |-> g, mid |-> m, c2 |-> c2, crlf |-> fl[1], final |-> fl[2]] :
                lc \in UNION { {l} \X [1..Len(Lays[l]) -> CK] : l \in 1..Len(Lays) }, t \in Toks, g \in BOOLEAN,
                m \in (IF Wide THEN {"nothing", "blank", "conly", "ttl"} ELSE {"nothing", "conly", "ttl"}),
                c2 \in (IF Wide THEN {"none", "sp"} ELSE {"sp"}), fl \in { cf \in BOOLEAN \X BOOLEAN : Wide \/ ~cf[1] \/ cf[2] } }
Z(x) == [entries |-> << E(1, x.l, x.t, x.cs, x.glue) >> \o Mid(x.mid) \o << E(2, 1, <<97>>, <<x.c2>>, FALSE) >>, crlf |-> x.crlf, final |-> x.final]

RECURSIVE Contains(_, _)
Contains(a, b) == Len(b) <= Len(a) /\ (IsPrefixOf(b, a) \/ (a # <<>> /\ Contains(Tail(a), b)))
Tagged(e) == \E i \in 1..Len(Own(e)) : Len(TrimR(Own(e)[i])) > 1

Static ==
  sm.i = 0 /\ sm.reg = Unknown /\ ~sm.done =>
  LET z == Z(v)  e1 == z.entries[1]  e2 == z.entries[Len(z.entries)] IN
  /\ \A i \in 1..Len(z.entries) : WellFormedEntry(z.entries[i])
  /\ ScanZone(Render(z)) = ModelScan(z)
  /\ \A e \in {e1, e2} :
       LET A == Admitted(e, z.crlf) IN
       /\ CommentOf(e) \in A
       /\ (Own(e) = <<>>) <=> (<<>> \in A)
       /\ (Own(e) = <<>>) => A = {<<>>}
       /\ Own(e) # <<>> => \A a \in A : a[1] = SEMI /\ \A i \in 1..Len(Own(e)) : Contains(a, TrimR(Own(e)[i]))
       /\ Partial(e, z.crlf) \cap A = {}
  /\ Tagged(e1) /\ Tagged(e2) => Admitted(e1, z.crlf) \cap Admitted(e2, z.crlf) = {}
  /\ Len(ExpectZone(z).recs) = 2 /\ ~ExpectZone(z).err

BrokenNext(s) ==
  CASE Variant = "keep" /\ SMHasNext(s) -> [SMNext(s) EXCEPT !.reg = s.reg]                                      \* the comment of the previous record stays
    [] Variant = "stale-end" /\ ~SMHasNext(s) -> [SMNext(s) EXCEPT !.reg = s.reg]                                 \* the last comment survives the end
    [] OTHER -> SMNext(s)

Init == v \in Universe /\ sm = SMStart(ExpectZone(Z(v)).recs) /\ prev = Unknown
DoNext == ~sm.done /\ sm' = BrokenNext(sm) /\ prev' = Unknown /\ UNCHANGED v
DoComment == \E c \in SMAllowed(sm) : sm' = SMComment(sm, c) /\ prev' = sm.reg /\ UNCHANGED v
Next == DoNext \/ DoComment

RegOK == sm.reg # Unknown => sm.reg \in (IF sm.done \/ sm.i = 0 THEN {<<>>} ELSE sm.recs[sm.i].adm)
Twice == prev # Unknown => sm.reg = prev
=============================================================================
