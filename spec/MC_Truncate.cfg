CONSTANTS
  MinSize = 6
  Variant = "impl"
  MaxRecs = 2
  MaxSize = 14
INIT Init
NEXT Next
INVARIANTS Holds Unique
