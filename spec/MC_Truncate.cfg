CONSTANTS
  MinSize = 6
  Variant = "impl"
  MaxAn = 2
  MaxNs = 1
  MaxAr = 1
  MaxSize = 14
INIT Init
NEXT Next
INVARIANTS Holds Unique
