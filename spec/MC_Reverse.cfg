CONSTANTS
  MaxLabel = 63
  MaxName = 255
INIT Init
NEXT Next
INVARIANTS V4Inv V6Inv DateInv Anchors NamesInv
CHECK_DEADLOCK FALSE
