------------------------------ MODULE MsgText ------------------------------
(* Msg.String() / MsgHdr.String(): the "dig-like" header as a projection of the  *)
(* header fields and the section sizes.  From the library's comment:             *)
(*     ;; opcode: QUERY, status: NOERROR, id: 48404                              *)
(*     ;; flags: qr aa rd ra;                                                    *)
(* Msg.String() continues the flags line with the four counts                    *)
(*     ;; flags: qr rd; QUERY: 1, ANSWER: 0, AUTHORITY: 0, ADDITIONAL: 0         *)
(* named ZONE / PREREQ / UPDATE / ADDITIONAL for an UPDATE message (RFC 2136     *)
(* s.2.2: ZOCOUNT PRCOUNT UPCOUNT ADCOUNT), and each non-empty section is        *)
(* introduced by its banner line.  Flag letters appear in header order           *)
(* qr aa tc rd ra z ad cd (RFC 1035 s.4.1.1, RFC 4035 s.3.1.6 / 3.2.2).          *)
(* Text = sequence of character codes.  The header is WireRR's hdr record.       *)
EXTENDS WireRR

TOpcode      == <<59, 59, 32, 111, 112, 99, 111, 100, 101, 58, 32>>    \* ";; opcode: "
TStatus      == <<44, 32, 115, 116, 97, 116, 117, 115, 58, 32>>    \* ", status: "
TId          == <<44, 32, 105, 100, 58, 32>>    \* ", id: "
TFlags       == <<59, 59, 32, 102, 108, 97, 103, 115, 58>>    \* ";; flags:"
TQuery       == <<81, 85, 69, 82, 89, 58, 32>>    \* "QUERY: "
TAnswer      == <<44, 32, 65, 78, 83, 87, 69, 82, 58, 32>>    \* ", ANSWER: "
TAuthority   == <<44, 32, 65, 85, 84, 72, 79, 82, 73, 84, 89, 58, 32>>    \* ", AUTHORITY: "
TAdditional  == <<44, 32, 65, 68, 68, 73, 84, 73, 79, 78, 65, 76, 58, 32>>    \* ", ADDITIONAL: "
TZone        == <<90, 79, 78, 69, 58, 32>>    \* "ZONE: "
TPrereq      == <<44, 32, 80, 82, 69, 82, 69, 81, 58, 32>>    \* ", PREREQ: "
TUpdate      == <<44, 32, 85, 80, 68, 65, 84, 69, 58, 32>>    \* ", UPDATE: "
FlagLetters == << [f |-> "qr", t |-> <<32, 113, 114>>], [f |-> "aa", t |-> <<32, 97, 97>>], [f |-> "tc", t |-> <<32, 116, 99>>], [f |-> "rd", t |-> <<32, 114, 100>>], [f |-> "ra", t |-> <<32, 114, 97>>], [f |-> "z", t |-> <<32, 122>>], [f |-> "ad", t |-> <<32, 97, 100>>], [f |-> "cd", t |-> <<32, 99, 100>>] >>    \* in this order: qr aa tc rd ra z ad cd
OpcodeNames ==   \* RFC 1035 s.4.1.1, RFC 1996, RFC 2136, RFC 8490 (IANA "DNS OpCodes")
     (0 :> { <<81, 85, 69, 82, 89>> })    \* QUERY
  @@ (1 :> { <<73, 81, 85, 69, 82, 89>> })    \* IQUERY
  @@ (2 :> { <<83, 84, 65, 84, 85, 83>> })    \* STATUS
  @@ (4 :> { <<78, 79, 84, 73, 70, 89>> })    \* NOTIFY
  @@ (5 :> { <<85, 80, 68, 65, 84, 69>> })    \* UPDATE
RcodeNames ==    \* IANA "DNS RCODEs"; 16 is BADVERS (RFC 6891) and BADSIG (RFC 8945): either
     (0 :> { <<78, 79, 69, 82, 82, 79, 82>> })    \* NOERROR
  @@ (1 :> { <<70, 79, 82, 77, 69, 82, 82>> })    \* FORMERR
  @@ (2 :> { <<83, 69, 82, 86, 70, 65, 73, 76>> })    \* SERVFAIL
  @@ (3 :> { <<78, 88, 68, 79, 77, 65, 73, 78>> })    \* NXDOMAIN
  @@ (4 :> { <<78, 79, 84, 73, 77, 80>> })    \* NOTIMP
  @@ (5 :> { <<82, 69, 70, 85, 83, 69, 68>> })    \* REFUSED
  @@ (6 :> { <<89, 88, 68, 79, 77, 65, 73, 78>> })    \* YXDOMAIN
  @@ (7 :> { <<89, 88, 82, 82, 83, 69, 84>> })    \* YXRRSET
  @@ (8 :> { <<78, 88, 82, 82, 83, 69, 84>> })    \* NXRRSET
  @@ (9 :> { <<78, 79, 84, 65, 85, 84, 72>> })    \* NOTAUTH
  @@ (10 :> { <<78, 79, 84, 90, 79, 78, 69>> })    \* NOTZONE
  @@ (11 :> { <<68, 83, 79, 84, 89, 80, 69, 78, 73>> })    \* DSOTYPENI
  @@ (16 :> { <<66, 65, 68, 83, 73, 71>>, <<66, 65, 68, 86, 69, 82, 83>> })    \* BADSIG / BADVERS
  @@ (17 :> { <<66, 65, 68, 75, 69, 89>> })    \* BADKEY
  @@ (18 :> { <<66, 65, 68, 84, 73, 77, 69>> })    \* BADTIME
  @@ (19 :> { <<66, 65, 68, 77, 79, 68, 69>> })    \* BADMODE
  @@ (20 :> { <<66, 65, 68, 78, 65, 77, 69>> })    \* BADNAME
  @@ (21 :> { <<66, 65, 68, 65, 76, 71>> })    \* BADALG
  @@ (22 :> { <<66, 65, 68, 84, 82, 85, 78, 67>> })    \* BADTRUNC
  @@ (23 :> { <<66, 65, 68, 67, 79, 79, 75, 73, 69>> })    \* BADCOOKIE
BQuestion    == <<59, 59, 32, 81, 85, 69, 83, 84, 73, 79, 78, 32, 83, 69, 67, 84, 73, 79, 78, 58>>    \* ";; QUESTION SECTION:"
BAnswer      == <<59, 59, 32, 65, 78, 83, 87, 69, 82, 32, 83, 69, 67, 84, 73, 79, 78, 58>>    \* ";; ANSWER SECTION:"
BAuthority   == <<59, 59, 32, 65, 85, 84, 72, 79, 82, 73, 84, 89, 32, 83, 69, 67, 84, 73, 79, 78, 58>>    \* ";; AUTHORITY SECTION:"
BAdditional  == <<59, 59, 32, 65, 68, 68, 73, 84, 73, 79, 78, 65, 76, 32, 83, 69, 67, 84, 73, 79, 78, 58>>    \* ";; ADDITIONAL SECTION:"
BZone        == <<59, 59, 32, 90, 79, 78, 69, 32, 83, 69, 67, 84, 73, 79, 78, 58>>    \* ";; ZONE SECTION:"
BPrereq      == <<59, 59, 32, 80, 82, 69, 82, 69, 81, 85, 73, 83, 73, 84, 69, 32, 83, 69, 67, 84, 73, 79, 78, 58>>    \* ";; PREREQUISITE SECTION:"
BUpdate      == <<59, 59, 32, 85, 80, 68, 65, 84, 69, 32, 83, 69, 67, 84, 73, 79, 78, 58>>    \* ";; UPDATE SECTION:"
BOpt         == <<59, 59, 32, 79, 80, 84, 32, 80, 83, 69, 85, 68, 79, 83, 69, 67, 84, 73, 79, 78, 58>>    \* ";; OPT PSEUDOSECTION:"

OpcodeUpdateCode == 5
\* AMBIG: code points without an IANA mnemonic (opcodes 3, 7..15; unassigned RCODEs) --
\* any text without a comma is admitted.  Opcode 6 is DSO (RFC 8490), which the library
\* knows as OpcodeStateful: some non-empty mnemonic is demanded.
Nl == 10

RECURSIVE DecN(_)
DecN(n) == IF n < 10 THEN << 48 + n >> ELSE DecN(n \div 10) \o << 48 + (n % 10) >>

FlagsText(h) == Concat([i \in 1..Len(FlagLetters) |-> IF h[FlagLetters[i].f] THEN FlagLetters[i].t ELSE <<>>])

\* the part after the status mnemonic, for the header alone (MsgHdr.String)
HdrTail(h) == TId \o DecN(h.id) \o <<Nl>> \o TFlags \o FlagsText(h) \o <<59>>

\* counts = <<qd, an, ns, ar>>
CountsText(h, c) ==
  IF h.opcode = OpcodeUpdateCode
  THEN TZone \o DecN(c[1]) \o TPrereq \o DecN(c[2]) \o TUpdate \o DecN(c[3]) \o TAdditional \o DecN(c[4])
  ELSE TQuery \o DecN(c[1]) \o TAnswer \o DecN(c[2]) \o TAuthority \o DecN(c[3]) \o TAdditional \o DecN(c[4])

NoComma(s) == \A i \in 1..Len(s) : s[i] # 44 /\ s[i] # Nl
OpcodeOK(o, s) == IF o \in DOMAIN OpcodeNames THEN s \in OpcodeNames[o]
                  ELSE IF o = 6 THEN s # <<>> /\ NoComma(s)
                  ELSE NoComma(s)
RcodeOK(r, s)  == IF r \in DOMAIN RcodeNames THEN s \in RcodeNames[r] ELSE NoComma(s)

RECURSIVE UpTo(_, _, _)
UpTo(s, i, c) == IF i > Len(s) \/ s[i] = c THEN i ELSE UpTo(s, i + 1, c)      \* index of the first c at or after i (Len+1: none)

\* t = ";; opcode: " <opcode> ", status: " <status> tail   with the mnemonics judged by OpcodeOK / RcodeOK
HeaderShape(t, h, tail) ==
  /\ IsPrefixOf(TOpcode, t)
  /\ LET a == Len(TOpcode) + 1
         b == UpTo(t, a, 44)                                  \* the comma that ends the opcode mnemonic
     IN /\ OpcodeOK(h.opcode, Sub(t, a, b - 1))
        /\ Sub(t, b, b + Len(TStatus) - 1) = TStatus
        /\ LET c == b + Len(TStatus)
               d == UpTo(t, c, 44)
           IN /\ RcodeOK(h.rcode, Sub(t, c, d - 1))
              /\ Sub(t, d, Len(t)) = tail

\* MsgHdr.String()
HdrStringOK(t, h) == HeaderShape(t, h, HdrTail(h))

\* Msg.String(): the first two lines, then the banners of the non-empty sections in order.
\* counts = section sizes; opt = an OPT record is in the additional section
RECURSIVE SplitLines(_, _, _)
SplitLines(s, i, cur) == IF i > Len(s) THEN << cur >>
                         ELSE IF s[i] = Nl THEN << cur >> \o SplitLines(s, i + 1, <<>>)
                         ELSE SplitLines(s, i + 1, Append(cur, s[i]))
Lines(s) == SplitLines(s, 1, <<>>)
IsBanner(ln) == Len(ln) > 4 /\ Sub(ln, 1, 3) = <<59, 59, 32>> /\ ln[Len(ln)] = 58       \* ";; ... :"
Banners(c, upd, opt) ==
     (IF opt THEN <<BOpt>> ELSE <<>>)
  \o (IF c[1] > 0 THEN << IF upd THEN BZone ELSE BQuestion >> ELSE <<>>)
  \o (IF c[2] > 0 THEN << IF upd THEN BPrereq ELSE BAnswer >> ELSE <<>>)
  \o (IF c[3] > 0 THEN << IF upd THEN BUpdate ELSE BAuthority >> ELSE <<>>)
  \o (IF c[4] > (IF opt THEN 1 ELSE 0) THEN <<BAdditional>> ELSE <<>>)          \* the OPT record has its own pseudo-section

MsgStringOK(t, h, c, opt) ==
  LET ls == Lines(t) IN
  /\ Len(ls) >= 3 /\ ls[Len(ls)] = <<>>                                         \* ends with a newline
  /\ HeaderShape(ls[1] \o <<Nl>> \o ls[2], h, HdrTail(h) \o <<32>> \o CountsText(h, c))
  /\ SelectSeq(SubSeq(ls, 3, Len(ls)), IsBanner) = Banners(c, h.opcode = OpcodeUpdateCode, opt)

\* header fields <-> the 16-bit flag word (RFC 1035 s.4.1.1): WireRR!DecHeader on <<id, word>>
HdrOfWord(id, w) == DecHeader(<< id \div 256, id % 256, w \div 256, w % 256 >>)
=============================================================================
