--------------------------- MODULE MC_PresentReg ---------------------------
(* PresentReg.tla checked on itself: every sequence of PrivateHandle /          *)
(* PrivateHandleRemove actions (the state space is finite: 34 registries, every *)
(* transition between them is taken) over three registrable private             *)
(* codes (first, last, and the one at the end of bitmap octet 15), one code     *)
(* that is never registered, three mnemonics (upper case, lower case, mixed     *)
(* case with hyphen and digit).  In every state reached:                        *)
(*   RoundTrip    the canonical writer and the reader under the registry are    *)
(*                inverse on every probe record in every allowed spelling, and  *)
(*                the text is plain master-file syntax                          *)
(*   NotLive      a code without registration is written TYPEnnn; a mnemonic    *)
(*                nobody holds denotes nothing; text that spells a code with a  *)
(*                mnemonic it does not hold NOW is not read as the record (this *)
(*                is what makes trace validation bite on a stale mnemonic)      *)
(*   Standard     the IANA mnemonics keep their meaning                         *)
(*   Unique       no two codes hold the same mnemonic                           *)
(*   Static       with an empty registry the reader is PresentRR's              *)
EXTENDS PresentReg

VARIABLES reg

Codes    == <<65280, 65407, 65534>>
Control  == 65281
AllCodes == SortedSeq(Range(Codes) \cup {Control})
Given    == << <<80, 82, 73, 86, 65>>, <<112, 114, 105, 118, 98>>, <<80, 114, 105, 118, 45, 67, 57>> >>     \* PRIVA privb Priv-C9
Actions  == { [op |-> "handle", mn |-> Given[j], code |-> Codes[i]] : i \in 1..Len(Codes), j \in 1..Len(Given) }
            \cup { [op |-> "remove", mn |-> <<>>, code |-> c] : c \in Range(AllCodes) }

Init == reg = RegInit
Next == \E a \in Actions : ActOK(reg, a) /\ reg' = Apply(reg, a)

PSeq == Probes(AllCodes)

RoundTrip ==
  \A i \in 1..Len(PSeq), k \in 1..Len(Spellings) :
    LET rr == PSeq[i]  t == TextOf(reg, rr, Spellings[k]) IN
    /\ OnlyMasterSyntax(t)
    /\ DenotesReg(reg, t, <<>>, FrameOf(rr))

NotLive ==
  /\ \A c \in Range(AllCodes) : ~IsLive(reg, c) => TypeTextReg(reg, c) = TypeNum(c) /\ TypeOfReg(reg, TypeNum(c)) = c
  /\ \A j \in 1..Len(Given) : HoldersOf(reg, Upper(Given[j])) = {} => TypeOfReg(reg, Given[j]) = -1
  /\ \A c \in Range(AllCodes), j \in 1..Len(Given) :
       (~IsLive(reg, c) \/ reg[c] # Upper(Given[j])) =>
         LET then == Handle(RegInit, Given[j], c)                 \* a state in which c was written with this mnemonic
             one  == RRc(47, NsecF(<< c >>))  sig == RRc(46, SigF(c)) IN
         /\ ~DenotesReg(reg, TextOf(then, one, "pref"), <<>>, FrameOf(one))
         /\ ~DenotesReg(reg, TextOf(then, sig, "lower"), <<>>, FrameOf(sig))
         /\ DenotesReg(then, TextOf(then, one, "pref"), <<>>, FrameOf(one))

Standard ==
  /\ \A i \in 1..Len(TypeTableRR) : TypeOfReg(reg, TypeTableRR[i][1]) = TypeTableRR[i][2] /\ TypeTextReg(reg, TypeTableRR[i][2]) = TypeTableRR[i][1]
  /\ \A i \in 1..Len(ClassTable) : TypeOfReg(reg, ClassTable[i][1]) = TypeOfRR(ClassTable[i][1])

Unique == \A c, d \in PrivCodes : IsLive(reg, c) /\ IsLive(reg, d) /\ reg[c] = reg[d] => c = d

Static ==
  reg = RegInit =>
    \A i \in 1..Len(PSeq) : LET L == Lex(TextOf(reg, PSeq[i], "pref")) IN ReadRecordReg(reg, L, <<>>) = ReadRecordL(L, <<>>)

\* run by hand: violated = a state with three live codes is reached
Witness == ~(\A i \in 1..Len(Codes) : IsLive(reg, Codes[i]))
=============================================================================
