------------------------------- MODULE Stream -------------------------------
(* Property C12, first half: DNS over a stream transport (RFC 1035 4.2.2,     *)
(* RFC 7766 8): every message is preceded by its length as two octets.        *)
(*                                                                            *)
(* A byte stream of tagged octets.  An octet is a record [m, k]: octet k of   *)
(* frame m, k = 0, 1 the length prefix, k = 2.. the body.  Tagging makes      *)
(* "intact" and "not mangled" checkable: a delivered message must be exactly  *)
(* the body octets 2..size+1 of one frame, in order.                          *)
(*                                                                            *)
(* The module has no variables.  A state is a record                          *)
(*   wire      octets written, still in the network                           *)
(*   avail     octets that reached the reader's socket buffer, not yet read   *)
(*   cut       the stream has ended (peer closed or connection lost): octets  *)
(*             in the network are gone, the reader sees EOF once avail is     *)
(*             empty                                                          *)
(*   wr        "open" | "broken" (a write failed half way)                    *)
(*   size      frame id -> body size, for frames written (whole or in part)   *)
(*   sent      ids of the frames written completely, in order                 *)
(*   refused   ids of messages refused by the writer (too large)              *)
(*   next      next frame id                                                  *)
(*   rd        reader: "len" | "body" | "eof" (clean end between messages)    *)
(*             | "err" (end inside a message); ph = the phase it was in,      *)
(*             "len" | "body", kept when rd becomes "eof" / "err"             *)
(*   rbuf,need the ReadFull in progress: octets gathered, octets missing      *)
(*   out       messages delivered to the application, each a sequence of      *)
(*             tagged octets                                                  *)
(* and every action is an operator from state to state, with its guard.       *)
EXTENDS Bytes

CONSTANTS MaxBody      \* 65535 in the real world

Frame(m, n) == [k \in 1..(n + 2) |-> [m |-> m, k |-> k - 1]]
BodyOf(m, n) == [k \in 1..n |-> [m |-> m, k |-> k + 1]]

SInit == [wire |-> <<>>, avail |-> <<>>, cut |-> FALSE, wr |-> "open", size |-> <<>>, sent |-> <<>>,
          refused |-> {}, next |-> 1, rd |-> "len", ph |-> "len", rbuf |-> <<>>, need |-> 2, out |-> <<>>]

-----------------------------------------------------------------------------
\* writer: one frame per call, atomically; a body over MaxBody is refused, nothing is written
CanWrite(s) == s.wr = "open" /\ ~s.cut
WriteFrame(s, n) ==
  IF n > MaxBody THEN [s EXCEPT !.refused = @ \cup {s.next}, !.size = Append(@, n), !.next = @ + 1]
  ELSE [s EXCEPT !.wire = @ \o Frame(s.next, n), !.size = Append(@, n), !.sent = Append(@, s.next), !.next = @ + 1]

\* the write fails after j octets (0 <= j < n + 2): the caller gets an error and must give the connection up
ShortWrite(s, n, j) ==
  [s EXCEPT !.wire = @ \o Sub(Frame(s.next, n), 1, j), !.size = Append(@, n), !.wr = "broken", !.next = @ + 1]

\* network: any chunking
CanDeliver(s, j) == ~s.cut /\ j \in 1..Len(s.wire)
Deliver(s, j) == [s EXCEPT !.avail = @ \o Sub(s.wire, 1, j), !.wire = Drop(@, j)]

\* the stream ends here, at whatever offset has been delivered so far
CanCut(s) == ~s.cut
Cut(s) == [s EXCEPT !.cut = TRUE, !.wire = <<>>]

-----------------------------------------------------------------------------
\* reader: ReadFull(2) for the length, ReadFull(length) for the body.  One Read call takes j >= 1 octets,
\* never more than asked for, never more than there are (short reads included).
LenValue(s, pre) ==      \* the two prefix octets as a number: the size of the frame they belong to
  IF pre[1].m = pre[2].m /\ pre[1].k = 0 /\ pre[2].k = 1 THEN s.size[pre[1].m] ELSE -1

Finish(s) ==             \* the ReadFull in progress has all its octets
  IF s.rd = "len" THEN
    LET n == LenValue(s, s.rbuf) IN
    IF n = 0 THEN [s EXCEPT !.out = Append(@, <<>>), !.rbuf = <<>>, !.need = 2]     \* empty body: no Read at all
    ELSE [s EXCEPT !.rd = "body", !.ph = "body", !.rbuf = <<>>, !.need = n]
  ELSE [s EXCEPT !.out = Append(@, s.rbuf), !.rd = "len", !.ph = "len", !.rbuf = <<>>, !.need = 2]

Reading(s) == s.rd \in {"len", "body"}
CanRead(s, j) == Reading(s) /\ j \in 1..Min(s.need, Len(s.avail))
Read(s, j) ==
  LET t == [s EXCEPT !.rbuf = @ \o Sub(s.avail, 1, j), !.avail = Drop(@, j), !.need = @ - j] IN
  IF t.need = 0 THEN Finish(t) ELSE t

\* the variant without ReadFull: whatever one Read returns is taken for the whole body
ReadOnce(s, j) ==
  LET t == [s EXCEPT !.rbuf = @ \o Sub(s.avail, 1, j), !.avail = Drop(@, j), !.need = @ - j] IN
  IF t.need = 0 \/ s.rd = "body" THEN Finish(t) ELSE t

CanSeeEnd(s) == Reading(s) /\ s.cut /\ s.avail = <<>>
SeeEnd(s) == [s EXCEPT !.rd = IF s.rd = "len" /\ s.rbuf = <<>> THEN "eof" ELSE "err"]

-----------------------------------------------------------------------------
(* Properties *)

\* delivered messages are a prefix of the messages sent, each intact
Intact(s) ==
  /\ Len(s.out) <= Len(s.sent)
  /\ \A i \in 1..Len(s.out) : s.out[i] = BodyOf(s.sent[i], s.size[s.sent[i]])

\* what a reader can have been given at most: the frames wholly inside the first e octets of the stream
RECURSIVE WholeFrames(_, _, _)
WholeFrames(sizes, i, e) ==
  IF i > Len(sizes) \/ sizes[i] + 2 > e THEN 0 ELSE 1 + WholeFrames(sizes, i + 1, e - sizes[i] - 2)
RECURSIVE SumTo(_, _)
SumTo(sizes, k) == IF k = 0 THEN 0 ELSE sizes[k] + 2 + SumTo(sizes, k - 1)

\* closed form: the stream is the frames of the given body sizes, cut after e octets, and the reader has read all of it.
\* Result: number of messages delivered and how the reader ends.
ReaderResult(sizes, e) ==
  LET k == WholeFrames(sizes, 1, e) IN
  [delivered |-> k, final |-> IF SumTo(sizes, k) = e THEN "eof" ELSE "err"]

(* Readers that decode the DNS header (Conn.ReadMsgHeader, Conn.ReadMsg).  A    *)
(* frame whose body is shorter than the h octets of a header (h = 12) is not a *)
(* message: such a reader reports an error for it.  The FRAMING is untouched   *)
(* by that: the frame was delimited by its length like any other, its octets   *)
(* are consumed, and the next read starts at the next length prefix.  Whether  *)
(* the caller may go on reading after that error is not said: the reader may   *)
(* carry on (what it hands out next is the next whole frame) or refuse every   *)
(* later read                                                       \* AMBIG  *)
(* -- but it never hands out octets that are not the body of one whole frame.  *)
(* Closed form: indices (into the frames on the wire) of the messages handed   *)
(* out by a reader that carries on, and by one that gives up at the first runt.*)
HdrReader(sizes, e, h) ==
  LET k == WholeFrames(sizes, 1, e)
      idx == SelectSeq([i \in 1..k |-> i], LAMBDA i : sizes[i] >= h)
      runts == { i \in 1..k : sizes[i] < h }
      first == IF runts = {} THEN k + 1 ELSE CHOOSE i \in runts : \A j \in runts : i <= j IN
  [carryon |-> idx, stop |-> SelectSeq(idx, LAMBDA i : i < first)]
\* the view such a reader has of the messages a state's reader has been given
HdrView(s, h) == SelectSeq(s.out, LAMBDA b : Len(b) >= h)

\* early end => error, never a mangled or short message; refused messages never travel
Sound(s) ==
  /\ Intact(s)
  /\ \A m \in s.refused : \A i \in 1..Len(s.wire) : s.wire[i].m # m
  /\ (s.rd = "len" /\ Len(s.rbuf) = 2 => FALSE)          \* Finish happens at once
  /\ (s.rd \in {"eof", "err"} => s.cut)

-----------------------------------------------------------------------------
(* The client's reply-ID rule (client.go ExchangeWithConnContext).            *)
(* inbox: the IDs of the replies that come back, in order; dl: how many of    *)
(* them arrive before the read deadline.  Result: what Exchange returns.      *)
(*   stream   : the first reply decides: its ID differs => ErrId              *)
(*   datagram : replies with other IDs are skipped until the matching one or  *)
(*              the deadline                                                  *)
(* "the deadline": ONE instant per exchange, fixed by the time the request   *)
(* has been written.  Replies that are skipped do not buy more time: after   *)
(* the write the read deadline in force may be moved earlier, never later.   *)
MaxDeadlineExtensions == 0
IdInit == [pos |-> 0, res |-> "pending", idx |-> 0]
IdCanRecv(st, inbox, dl) == st.res = "pending" /\ st.pos < Min(dl, Len(inbox))
IdRecv(st, transport, inbox, mine) ==
  LET i == st.pos + 1 IN
  IF inbox[i] = mine THEN [pos |-> i, res |-> "ok", idx |-> i]
  ELSE IF transport = "stream" THEN [pos |-> i, res |-> "errid", idx |-> i]
  ELSE [pos |-> i, res |-> "pending", idx |-> 0]
IdCanExpire(st, inbox, dl) == st.res = "pending" /\ st.pos >= Min(dl, Len(inbox))
IdExpire(st) == [st EXCEPT !.res = "timeout"]

(* Which rule a real transport gets is decided by its KIND, not by which Go    *)
(* interfaces the connection object happens to implement: byte streams (TCP,  *)
(* unix-domain SOCK_STREAM, and the same wrapped in another conn type) are    *)
(* "stream"; UDP and unix-domain SOCK_DGRAM are "dgram".  SOCK_SEQPACKET      *)
(* ("unixpacket") is connection-oriented but keeps message boundaries and is  *)
(* carried without length prefix: the statement's two words do not decide it, *)
(* both rules are admitted.                                        \* AMBIG   *)
KindRules == [tcp |-> {"stream"}, unix |-> {"stream"}, unixwrapped |-> {"stream"}, tcpwrapped |-> {"stream"},
              udp |-> {"dgram"}, unixgram |-> {"dgram"}, udpwrapped |-> {"dgram"},
              unixpacket |-> {"stream", "dgram"}]
Kinds == DOMAIN KindRules
(* The rule belongs to the exchange, not to the Conn object: what counts is   *)
(* the kind of the transport the Conn points at when the exchange is made.    *)
(* A Conn that was used over one kind and is then pointed at another (the     *)
(* retry over TCP after a truncated UDP reply) follows the new kind's rule    *)
(* and framing from the next exchange on.                                     *)
\* (RepointResults, at the end of the module)

\* closed form
IdResult(transport, inbox, dl, mine) ==
  LET arrived == Sub(inbox, 1, Min(dl, Len(inbox))) IN
  IF transport = "stream" THEN
    IF arrived = <<>> THEN [res |-> "timeout", idx |-> 0]
    ELSE IF arrived[1] = mine THEN [res |-> "ok", idx |-> 1] ELSE [res |-> "errid", idx |-> 1]
  ELSE
    LET hits == { i \in 1..Len(arrived) : arrived[i] = mine } IN
    IF hits = {} THEN [res |-> "timeout", idx |-> 0]
    ELSE [res |-> "ok", idx |-> CHOOSE i \in hits : \A j \in hits : i <= j]
\* the results admitted for the second of two exchanges made with one Conn over transports of kind first, then second
RepointResults(first, second, inbox, dl, mine) == { IdResult(t, inbox, dl, mine) : t \in KindRules[second] }
=============================================================================
