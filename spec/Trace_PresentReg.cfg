CONSTANTS
  MaxLabel = 63
  MaxName = 255
INIT Init
NEXT Next
POSTCONDITION Accepted5
CHECK_DEADLOCK FALSE
