CONSTANTS
  MaxLabel = 63
  MaxName = 255
INIT Init
NEXT Next
INVARIANTS Invariant Sensitive Pre
CHECK_DEADLOCK FALSE
