----------------------------- MODULE Gen_Writer -----------------------------
(* Vectors for X06: scripts for one connection (one packet conn), with what     *)
(* Writer.tla says the binding must observe.                                    *)
(*                                                                              *)
(*  script = [tr, maxq, rt, idle, reqs, cliclose, post]                         *)
(*    reqs      messages the client sends, one after the other, each only after *)
(*              the previous one was dealt with: [kind, src, tsig, ops]         *)
(*              (ops: what the handler does with its ResponseWriter, in order)  *)
(*    cliclose  the client closes its end after the last message                *)
(*    post      operations on the writer AFTER the worker has gone             *)
(*  exp = the events the binding must observe, in order (see Trace_Writer for   *)
(*        their meaning): dl, msg, op, ret, eof, fin, post, pcdls               *)
(*                                                                              *)
(*  Mode "ops"   every sequence of <= N operations over Alphabet(Wide) as the   *)
(*               first request, then a plain second request ("is the connection *)
(*               still usable"), then two operations after the worker has gone  *)
(*  Mode "conn"  every sequence of <= N requests over 8 behaviours x            *)
(*               MaxTCPQueries in {unset, -1, 1, 2, 3}; time-outs vary with     *)
(*               the case                                                       *)
(*  Mode "long"  the default limit of 128 and "unlimited" with 130 requests     *)
EXTENDS Writer, GenBase

CONSTANTS Mode, N, Wide, Shard, NShards

VARIABLES v

Op(n, len, ok) == [op |-> n, len |-> len, ok |-> ok]
WM   == Op("WriteMsg", 40, TRUE)
Core == << WM, Op("WriteMsg", 40, FALSE), Op("Write", 12, TRUE), Op("Write", 65536, TRUE),
           Op("Close", 0, TRUE), Op("Hijack", 0, TRUE), Op("TsigStatus", 0, TRUE), Op("RemoteAddr", 0, TRUE) >>
More == << Op("WriteMsg", 256, TRUE), Op("WriteMsg", 255, TRUE), Op("Write", 0, TRUE), Op("Write", 65535, TRUE),
           Op("LocalAddr", 0, TRUE), Op("ConnectionState", 0, TRUE) >>
Alphabet == IF Wide THEN Core \o More ELSE Core

-----------------------------------------------------------------------------
(* running a script *)
RECURSIVE RunOps(_, _, _)
RunOps(c, ops, tag) ==        \* -> [c, evs]
  IF ops = <<>> THEN [c |-> c, evs |-> <<>>]
  ELSE LET d == DoOp(c, Head(ops))
           t == RunOps(d.c, Tail(ops), tag)
       IN [c |-> t.c, evs |-> << [ev |-> tag, op |-> Head(ops).op, len |-> Head(ops).len, ok |-> Head(ops).ok, r |-> d.r] >> \o t.evs]

\* the worker, left alone, runs until it blocks in a read or has gone
Settle(c, ic) ==              \* -> [c, evs]
  LET c1 == IF c.at = "loop" THEN (IF CanRead(c) THEN SrvRead(c) ELSE SrvLeave(c)) ELSE c
      e1 == IF c.at = "loop" /\ CanRead(c) /\ Stream(c.tr) THEN << [ev |-> "dl", d |-> NextDL(c)] >> ELSE <<>>
  IN IF c1.at = "finish"
     THEN [c |-> Finish(c1), evs |-> e1 \o << [ev |-> "fin", closes |-> FinishCloses(c1), open |-> Finish(c1).open] >>]
     ELSE [c |-> c1, evs |-> e1]

RECURSIVE RunReqs(_, _, _)
RunReqs(c, reqs, ic) ==       \* c is settled;  -> [c, evs]
  IF reqs = <<>> THEN [c |-> c, evs |-> <<>>]
  ELSE IF c.at # "reading" THEN [c |-> c, evs |-> <<>>]          \* nobody reads any more: nothing further is observable
  ELSE LET r  == Head(reqs)
           m  == [ev |-> "msg", kind |-> r.kind, src |-> r.src, tsig |-> r.tsig]
           c1 == Deliver(c, r.kind, r.src, r.tsig, ic)
           h  == IF r.kind = "query" THEN RunOps(c1, r.ops, "op") ELSE [c |-> c1, evs |-> <<>>]
           c2 == IF r.kind = "query" THEN Return(h.c) ELSE h.c
           e2 == IF r.kind = "query" THEN << [ev |-> "ret"] >> ELSE <<>>
           s  == Settle(c2, ic)
           t  == RunReqs(s.c, Tail(reqs), ic)
       IN [c |-> t.c, evs |-> << m >> \o h.evs \o e2 \o s.evs \o t.evs]

Run(sc, ic) ==
  LET c0 == NewConn(sc.tr, [maxq |-> sc.maxq, rt |-> sc.rt, idle |-> sc.idle])
      s0 == Settle(c0, ic)
      a  == RunReqs(s0.c, sc.reqs, ic)
      \* the client closes its end
      b  == IF sc.cliclose /\ Stream(sc.tr) /\ a.c.at = "reading"
            THEN LET s == Settle(ReadFails(a.c), ic) IN [c |-> s.c, evs |-> << [ev |-> "eof"] >> \o s.evs]
            ELSE [c |-> a.c, evs |-> <<>>]
      \* the packet loop's deadlines are reported at the end (they are set concurrently with the handlers)
      pd == IF Stream(sc.tr) THEN <<>> ELSE << [ev |-> "pcdls", ds |-> b.c.dls] >>
      \* operations after the worker has gone (only if a handler ever got hold of a writer)
      p  == IF CanPost(b.c) /\ b.c.nh > 0 THEN RunOps(b.c, sc.post, "post") ELSE [c |-> b.c, evs |-> <<>>]
  IN s0.evs \o a.evs \o b.evs \o pd \o p.evs

\* AMBIG (Deliver): only scripts on which both readings of "TCP query" agree are exported
Unambiguous(sc) == Run(sc, TRUE) = Run(sc, FALSE)
Vector(sc) == [sc EXCEPT !.exp = Run(sc, TRUE)]

-----------------------------------------------------------------------------
Tsigs == << "", "bad", "good" >>
Srcs  == << "cli:1", "cli:2", "cli:3", "cli:4", "cli:5" >>
RECURSIVE SumSeq(_)
SumSeq(s) == IF s = <<>> THEN 0 ELSE Head(s) + SumSeq(Tail(s))
Hash(q) == SumSeq([i \in 1..Len(q) |-> i * q[i]])
InShard(q) == Hash(q) % NShards = Shard

Script(tr, maxq, rt, idle, reqs, cc, post) ==
  [tr |-> tr, maxq |-> maxq, rt |-> rt, idle |-> idle, reqs |-> reqs, cliclose |-> cc, post |-> post, exp |-> <<>>]
Req(kind, src, ts, ops) == [kind |-> kind, src |-> src, tsig |-> ts, ops |-> ops]

\* "ops": q = sequence of indices into Alphabet
OpsScript(tr, q) ==
  LET h  == Hash(q)
      ts == Tsigs[1 + (h % 3)]
  IN Script(tr, 0, IF h % 2 = 0 THEN "" ELSE "1h", IF (h \div 2) % 2 = 0 THEN "" ELSE "3h",
            << Req("query", Srcs[1 + (h % 5)], ts, [i \in 1..Len(q) |-> Alphabet[q[i]]]),
               Req("query", Srcs[1 + ((h + 1) % 5)], "", << Op("TsigStatus", 0, TRUE), WM >>) >>,
            h % 4 # 3,
            << WM, Op("Close", 0, TRUE) >>)

\* "conn": q = sequence of indices into Behaviours
Behaviours == << <<>>, << WM >>, << WM, WM >>, << Op("Close", 0, TRUE) >>, << WM, Op("Close", 0, TRUE) >>,
                 << Op("Hijack", 0, TRUE) >>, << Op("Hijack", 0, TRUE), WM >>, << Op("Close", 0, TRUE), Op("Hijack", 0, TRUE) >> >>
NBeh == Len(Behaviours) + 1            \* the last index is an ignored message
ConnScript(tr, maxq, q) ==
  LET h == Hash(q) + maxq + 1 IN
  Script(tr, maxq, IF h % 2 = 0 THEN "" ELSE "1h", IF (h \div 2) % 2 = 0 THEN "" ELSE "3h",
         [i \in 1..Len(q) |-> IF q[i] = NBeh THEN Req("ign", Srcs[1 + ((h + i) % 5)], "", <<>>)
                              ELSE Req("query", Srcs[1 + ((h + i) % 5)], "", Behaviours[q[i]])],
         h % 3 # 0,
         << WM >>)

LongScript(tr, maxq, n, silent) ==
  Script(tr, maxq, "", "", [i \in 1..n |-> Req("query", "cli:1", "", IF silent /\ i % 2 = 0 THEN <<>> ELSE << WM >>)], TRUE, <<>>)

SeqsUpTo(S, k) == UNION { [1..n -> S] : n \in 0..k }

Init ==
  \/ Mode = "ops"  /\ \E tr \in Transports, q \in SeqsUpTo(1..Len(Alphabet), N) : InShard(q) /\ v = OpsScript(tr, q)
  \/ Mode = "conn" /\ \E tr \in {"tcp", "pc"}, maxq \in {0, -1, 1, 2, 3}, q \in SeqsUpTo(1..NBeh, N) :
                         InShard(q) /\ v = ConnScript(tr, maxq, q)
  \/ Mode = "long" /\ \E tr \in Transports, maxq \in {0, -1, 128, 129}, s \in BOOLEAN : v = LongScript(tr, maxq, 130, s)
Next == UNCHANGED v

Out == IF Unambiguous(v) THEN Emit(Vector(v)) ELSE TRUE
=============================================================================
