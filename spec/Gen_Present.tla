----------------------------- MODULE Gen_Present -----------------------------
(* Hostile zone text for C07: every string of length <= N over Alphabet is one *)
(* TLC state, exported with the lexical classification Present.tla gives it.   *)
(* Strings grow one character per step; a shard owns the strings that start    *)
(* with one of its first characters (NShards = 1: everything).                 *)
EXTENDS Present, GenBase

CONSTANTS Alphabet, N, Shard, NShards

VARIABLES s

RECURSIVE SetAsSeq(_)
SetAsSeq(S) == IF S = {} THEN <<>> ELSE LET x == CHOOSE y \in S : TRUE IN <<x>> \o SetAsSeq(S \ {x})

AlphaSeq == SetAsSeq(Alphabet)
Mine(c) == (CHOOSE i \in 1..Len(AlphaSeq) : AlphaSeq[i] = c) % NShards = Shard

Init == s = <<>>
Next == /\ Len(s) < N
        /\ \E c \in Alphabet : (Len(s) > 0 \/ Mine(c)) /\ s' = Append(s, c)

Out == (s = <<>> /\ Shard > 0) \/
       LET L == Lex(s) IN Emit([kind |-> "text", text |-> s, ill |-> L.ill, odd |-> L.odd, amb |-> L.amb, ntok |-> Len(Items(L.toks))])
=============================================================================
