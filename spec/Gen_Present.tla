----------------------------- MODULE Gen_Present -----------------------------
(* Hostile zone text for C07: every string of length <= N over Alphabet is one *)
(* TLC state, exported with the lexical classification Present.tla gives it.   *)
(* Strings grow one character per step (so TLC's workers share the universe);  *)
(* shards split it by the first two characters (NShards = 1: everything).      *)
(* Mode "file": the texts come from texts.ndjson ({text}), written by the      *)
(* harness (structured families whose classification must be the spec's, not   *)
(* the harness').                                                              *)
EXTENDS Present, GenBase

CONSTANTS Alphabet, N, Shard, NShards, Mode

VARIABLES s

RECURSIVE SetAsSeq(_)
SetAsSeq(S) == IF S = {} THEN <<>> ELSE LET x == CHOOSE y \in S : TRUE IN <<x>> \o SetAsSeq(S \ {x})

AlphaSeq == SetAsSeq(Alphabet)
IndexOf(c) == CHOOSE i \in 1..Len(AlphaSeq) : AlphaSeq[i] = c
\* a shard owns the strings whose first two characters hash to it; the strings shorter than 2 belong to shard 0
ShardOf(t) == ((IndexOf(t[1]) - 1) * Len(AlphaSeq) + (IndexOf(t[2]) - 1)) % NShards

Given == IF Mode = "file" THEN ndJsonDeserialize("texts.ndjson") ELSE <<>>

Init == IF Mode = "file" THEN \E i \in 1..Len(Given) : s = Given[i].text ELSE s = <<>>
Next == /\ Mode # "file"
        /\ Len(s) < N
        /\ \E c \in Alphabet : s' = Append(s, c) /\ (Len(s') # 2 \/ ShardOf(s') = Shard)

Out == IF Mode # "file" /\ Len(s) < 2 /\ Shard # 0 THEN TRUE
       ELSE LET L == Lex(s) IN
            Emit([kind |-> "text", text |-> s, ill |-> L.ill, odd |-> L.odd, amb |-> L.amb, ntok |-> Len(Items(L.toks))])
=============================================================================
