CONSTANTS
  Keys = {1, 2}
  MaxOps = 5
  Layouts = {"a"}
INIT MCInit
NEXT Next
INVARIANTS TypeOK Rooted Interchangeable LayoutIrrelevant VerifyIffSameKey Witness
POSTCONDITION NonVacuous
CHECK_DEADLOCK FALSE
