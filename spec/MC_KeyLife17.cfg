CONSTANTS
  Keys = {1, 2}
  MaxOps = 5
INIT MCInit
NEXT Next
INVARIANTS TypeOK Rooted Interchangeable VerifyIffSameKey Witness
POSTCONDITION NonVacuous
CHECK_DEADLOCK FALSE
