-------------------------------- MODULE Dup --------------------------------
(* Property C20: record equality (IsDuplicate) and Dedup.                      *)
(*                                                                             *)
(* A record as it is on the wire, uncompressed:                                *)
(*   [t : type, c : class, ow : owner name octets, rd : RDATA octets,          *)
(*    spans : << <<off, len>>, ... >>]   the embedded domain names of the      *)
(*    RDATA: 0-based offset and wire length of each (the harness finds them    *)
(*    from the struct tags dns:"domain-name" / "cdomain-name" by packing).     *)
(* Two records are duplicates iff type, class and the lower-cased owner and    *)
(* RDATA octets are equal, where lower-casing touches the label octets of      *)
(* the owner and of every embedded name and nothing else (RFC 4343).  The TTL  *)
(* is not part of the key.                                                     *)
(*                                                                             *)
(* A record as text (for Dedup): [o : owner text, c, t, rd : RDATA text,       *)
(* ttl : <<hi16, lo16>>].  The owner text denotes a name (Names!Parse: \DDD,   *)
(* \X escapes); "identical up to owner-name case" is decided on the octets of  *)
(* its labels, lower-cased -- not on the characters of the text.               *)
EXTENDS Names

\* lower-case the label octets of the uncompressed name that starts at the
\* length octet w[i] and lies within w[..end]
RECURSIVE LowerLabels(_, _, _)
LowerLabels(w, i, end) ==
  IF i > end \/ i > Len(w) THEN w
  ELSE LET n == w[i] IN
    IF n = 0 \/ n >= 64 THEN w
    ELSE LowerLabels([k \in 1..Len(w) |-> IF k > i /\ k <= i + n /\ k <= end THEN LowerOctet(w[k]) ELSE w[k]],
                     i + n + 1, end)

\* the span is a well-formed uncompressed name: label walk from off ends on the root octet at off+len-1
RECURSIVE NameEndsAt(_, _, _)
NameEndsAt(w, i, end) ==
  IF i > end \/ i > Len(w) THEN FALSE
  ELSE IF w[i] = 0 THEN i = end
  ELSE IF w[i] >= 64 THEN FALSE
  ELSE NameEndsAt(w, i + w[i] + 1, end)

WFSpans(r) == \A k \in 1..Len(r.spans) :
                LET off == r.spans[k][1]  n == r.spans[k][2] IN
                off >= 0 /\ n >= 1 /\ off + n <= Len(r.rd) /\ NameEndsAt(r.rd, off + 1, off + n)
WFWire(r) == NameEndsAt(r.ow, 1, Len(r.ow)) /\ WFSpans(r)

RECURSIVE CanonRdata(_, _)
CanonRdata(rd, spans) ==
  IF spans = <<>> THEN rd
  ELSE CanonRdata(LowerLabels(rd, Head(spans)[1] + 1, Head(spans)[1] + Head(spans)[2]), Tail(spans))

Key(r) == << r.t, r.c, LowerLabels(r.ow, 1, Len(r.ow)), CanonRdata(r.rd, r.spans) >>
IsDup(a, b) == Key(a) = Key(b)

-----------------------------------------------------------------------------
(* Records WITHOUT a wire form (hand-built values the library refuses to pack:  *)
(* a parameter list that repeats a key ...).  The clause "for records obtained  *)
(* from the wire" does not speak of them; the clauses on ALL records do: the    *)
(* relation is symmetric and reflexive and holds between a record and its copy. *)
(* Such a record is given by the sequence of element numbers its list holds;    *)
(* ab, ba = the answers for (a, b) and (b, a), self = a with itself and with a  *)
(* record built the same way, copy = a with its copy.  AMBIG: whether two       *)
(* different sequences are one record (the order of a list may or may not be    *)
(* part of the value) is left open; the same sequence is the same record.       *)
LawOK(la, lb, ab, ba, self, copy) ==
  /\ ab = ba                       \* symmetric
  /\ self /\ copy                  \* reflexive; a record and its copy
  /\ (la = lb => ab)               \* built twice the same way

-----------------------------------------------------------------------------
(* Dedup: group by <<lower-cased owner labels, class, type, RDATA text exactly>>; the *)
(* first record of each group survives, in the original order, carrying the     *)
(* smallest TTL of its group.                                                   *)
OwnerOK(r) == Parse(r.o).st = "ok"
DKey(r) == << LowerName(Parse(r.o).labels), r.c, r.t, r.rd >>
TtlLess(a, b) == a[1] < b[1] \/ (a[1] = b[1] /\ a[2] < b[2])
Group(list, i) == { j \in 1..Len(list) : DKey(list[j]) = DKey(list[i]) }
IsFirst(list, i) == \A j \in 1..(i - 1) : DKey(list[j]) # DKey(list[i])
MinTtl(list, i) == LET g == Group(list, i) IN
                   list[CHOOSE j \in g : \A k \in g : ~TtlLess(list[k].ttl, list[j].ttl)].ttl
RECURSIVE Firsts(_, _)
Firsts(list, i) == IF i > Len(list) THEN <<>>
                   ELSE (IF IsFirst(list, i) THEN <<i>> ELSE <<>>) \o Firsts(list, i + 1)
\* the result as << [i |-> index in the input, ttl |-> ttl it carries] >>
DedupIdx(list) == LET f == Firsts(list, 1) IN [k \in 1..Len(f) |-> [i |-> f[k], ttl |-> MinTtl(list, f[k])]]
Dedup(list) == LET d == DedupIdx(list) IN [k \in 1..Len(d) |-> [list[d[k].i] EXCEPT !.ttl = d[k].ttl]]
=============================================================================
