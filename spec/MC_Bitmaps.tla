------------------------------ MODULE MC_Bitmaps ------------------------------
(* Bitmaps.tla on itself, one case per state.                                    *)
EXTENDS Bitmaps

VARIABLES kd, x

TypeSet == {0, 1, 7, 8, 255, 256, 511, 65535}
Octs == {0, 1, 128, 255}
Block(w, n) == { <<w, n>> \o o : o \in [1..(IF n > 3 THEN 0 ELSE n) -> Octs] }
Blocks == UNION { Block(w, n) : w \in 0..1, n \in 0..2 }
Items == { [fam |-> f, neg |-> ng, prefix |-> p, addr |-> a] : f \in {1}, ng \in BOOLEAN, p \in {0, 1, 8, 9, 24, 31, 32},
                                                              a \in { <<0, 0, 0, 0>>, <<10, 0, 0, 0>>, <<10, 128, 0, 0>>, <<192, 168, 1, 0>>, <<255, 255, 255, 255>>, <<0, 0, 0, 1>> } }
         \cup { [fam |-> 2, neg |-> FALSE, prefix |-> p, addr |-> a] : p \in {0, 8, 64, 127, 128},
                a \in { Rv!Zeros(16), <<255>> \o Rv!Zeros(15), <<32, 1, 13, 184>> \o Rv!Zeros(12), Rv!Zeros(15) \o <<1>> } }

Init == \/ kd = "set"  /\ x \in SUBSET TypeSet
        \/ kd = "raw1" /\ x \in Blocks
        \/ kd = "raw2" /\ x \in { a \o b : a \in Blocks, b \in Blocks }
        \/ kd = "long" /\ x \in { <<0, n>> \o [i \in 1..m |-> IF i = m THEN l ELSE 0] : n \in {31, 32, 33}, m \in {31, 32, 33}, l \in {0, 1} }
        \/ kd = "apl"  /\ x \in Items
        \/ kd = "aplraw" /\ x \in { <<0, f, p, nl>> \o o : f \in {0, 1, 2, 3}, p \in {0, 8, 32, 33}, nl \in {0, 1, 2, 4, 5, 129, 132}, o \in { <<>>, <<10>>, <<10, 0>>, <<10, 1>>, <<1, 2, 3, 4>>, <<1, 2, 3, 0>>, <<1, 2, 3, 4, 5>> } }
        \/ kd = "size" /\ x \in 0..255
        \/ kd = "hex"  /\ x \in { <<0, 0, 0, 0, 0, 0>>, <<255, 255, 255, 255, 255, 255>>, <<1, 35, 69, 103, 137, 171>>, <<0, 20, 79, 255, 255, 32, 238, 100>>, Rv!Zeros(8) }
Next == UNCHANGED << kd, x >>

Sorted(S) == SortedSeq(S)

SetInv == kd = "set" =>
  LET b == EncBitmap(Sorted(x))  d == DecBitmap(b) IN
  /\ d.st = "ok" /\ d.types = Sorted(x)
  /\ (x # {} => DecBitmap(b \o <<0>>).st = "bad")                                   \* a dangling octet
  /\ (x # {} => DecBitmap(Sub(b, 1, Len(b) - 1)).st = "bad")                        \* cut short
  /\ PackBitmapAdm(Sorted(x)).wire = b /\ ~PackBitmapAdm(Sorted(x)).mayrefuse
  /\ (Cardinality(x) >= 2 => LET r == [i \in 1..Cardinality(x) |-> Sorted(x)[Cardinality(x) + 1 - i]] IN
                              PackBitmapAdm(r).wire = b /\ PackBitmapAdm(r).mayrefuse /\ PackBitmapAdm(r \o r).wire = b)
\* a received form is "ok" exactly when it is THE encoding of its types (the encoding is canonical)
RawInv == kd \in {"raw1", "raw2", "long"} =>
  LET d == DecBitmap(x) IN
  /\ d.st \in {"ok", "lax", "bad"}
  /\ (d.st = "ok" <=> (d.st # "bad" /\ EncBitmap(d.types) = x))
  /\ (d.st = "lax" => EncBitmap(d.types) # x /\ StrictlyIncreasing(d.types))
  /\ (d.st = "ok" => StrictlyIncreasing(d.types) /\ d.types # <<>>)
  /\ (kd = "long" => (d.st = "bad" <=> (x[2] = 33 \/ x[2] # Len(x) - 2)))

AplInv == kd = "apl" =>
  LET b == EncApl(<<x>>)  d == DecApl(b) IN
  /\ d.st = "ok" /\ d.items = << [x EXCEPT !.addr = MaskTo(@, x.prefix)] >>
  /\ DecApl(b \o b).st = "ok" /\ Len(DecApl(b \o b).items) = 2
  /\ (Len(b) > 4 => DecApl(Sub(b, 1, Len(b) - 1)).st = "bad")
  /\ (ZeroBeyond(x.addr, x.prefix) => AplRead(AplText(x)).ok /\ AplRead(AplText(x)).item = x)
  /\ ~AplRead(Tail(AplText(x))).ok \/ x.neg
AplRawInv == kd = "aplraw" =>
  LET d == DecApl(x) IN
  /\ d.st \in {"ok", "lax", "bad"}
  /\ (d.st = "ok" => EncApl(d.items) = x)
  /\ (d.st = "lax" /\ d.items # <<>> => EncApl(d.items) # x)
  /\ (x[2] \in {1, 2} /\ x[3] > 8 * FamLen(x[2]) => d.st = "bad")
  /\ (x[4] % 128 # Len(x) - 4 /\ x[4] % 128 > Len(x) - 4 => d.st = "bad")

SizeInv == kd = "size" =>
  /\ Cardinality(ValidOctets) = 100
  /\ (ValidSize(x) =>
        /\ x \in SizeOctetsFor(SizeValue(x))
        /\ \A b \in SizeOctetsFor(SizeValue(x)) : SizeValue(b) = SizeValue(x)
        /\ LessEq(SizeValue(x), <<90000000, 0>>)
        /\ (Mant(x) # 0 => SizeOctetsFor(SizeValue(x)) = {x})                                   \* the encoding is unique but for zero
        /\ LET v == SizeValue(x)
               t == Rv!DecText(0) IN TRUE)
  /\ SizeRead(<<49, 109>>).v = <<1, 0>> /\ SizeRead(<<46, 48, 49>>).v = <<0, 1>> /\ SizeRead(<<49, 46, 53>>).v = <<1, 50>>
  /\ SizeRead(<<57, 48, 48, 48, 48, 48, 48, 48, 46, 48, 48, 109>>).ok /\ ~SizeRead(<<57, 48, 48, 48, 48, 48, 48, 48, 46, 48, 49>>).ok
  /\ ~SizeRead(<<>>).ok /\ ~SizeRead(<<109>>).ok /\ ~SizeRead(<<49, 46>>).ok /\ ~SizeRead(<<49, 46, 48, 48, 48>>).ok /\ ~SizeRead(<<45, 49>>).ok
  /\ SizeOctetsFor(<<1, 50>>) = {18, 34} /\ SizeOctetsFor(<<15, 0>>) = {19, 35} /\ SizeOctetsFor(<<0, 0>>) = { e : e \in 0..9 }
  /\ SizeOctetsFor(<<90000000, 0>>) = {153} /\ SizeOctetsFor(<<0, 99>>) = {145, 18}

HexInv == kd = "hex" =>
  IF Len(x) = 8
  THEN /\ IlnpRead(IlnpText(x, FALSE)).v = x /\ IlnpRead(IlnpText(x, TRUE)).v = x /\ Len(IlnpText(x, FALSE)) = 19
       /\ EuiRead(EuiText(x, FALSE), 8).v = x /\ Len(EuiText(x, TRUE)) = 23
       /\ ~IlnpRead(EuiText(x, FALSE)).ok /\ ~EuiRead(IlnpText(x, FALSE), 8).ok
       /\ ~IlnpRead([IlnpText(x, FALSE) EXCEPT ![5] = 120]).ok /\ ~IlnpRead([IlnpText(x, FALSE) EXCEPT ![10] = 45]).ok
       /\ ~IlnpRead(IlnpText(x, FALSE) \o <<48>>).ok /\ ~IlnpRead(Tail(IlnpText(x, FALSE))).ok
  ELSE /\ EuiRead(EuiText(x, FALSE), 6).v = x /\ EuiRead(EuiText(x, TRUE), 6).v = x /\ Len(EuiText(x, FALSE)) = 17
       /\ ~EuiRead(EuiText(x, FALSE), 8).ok /\ ~EuiRead([EuiText(x, FALSE) EXCEPT ![3] = 58], 6).ok
       /\ ~EuiRead([EuiText(x, FALSE) EXCEPT ![1] = 103], 6).ok
=============================================================================
