------------------------------ MODULE MC_XfrOut ------------------------------
(* XfrOut.tla on itself: one Out call, the producer (put / close / leave), the  *)
(* transport fault and the AMBIG outcomes nondeterministic; messages are toy    *)
(* octet strings signed with Tsig!MacModel, and an independent receiver         *)
(* (Tsig!VerifyEnv from Session(request MAC)) reads the wire.                   *)
EXTENDS XfrOut

CONSTANT MaxEnv

VARIABLES o, puts, wire, left     \* puts: envelopes handed over so far; wire: frames; left: the producer went away
vars == << o, puts, wire, left >>

KeyN == << <<107>> >>
AlgN == << <<104>> >>
Secret == <<1, 2, 3>>
Now == <<0, 1, 0>>
QSec == <<1, 122, 0, 0, 252, 0, 1>>                      \* z. AXFR IN
Rq(sig, op, rd) == [id |-> 4660, opcode |-> op, rd |-> rd, cd |-> FALSE, qd |-> 1, qsec |-> QSec, sig |-> sig,
                    mac |-> IF sig = "none" THEN <<>> ELSE <<9, 9>>, key |-> KeyN, alg |-> AlgN, fudge |-> 300]
RRa == <<1, 97, 0, 0, 1, 0, 1, 0, 0, 0, 0, 0, 4, 1, 2, 3, 4>>
RRb == <<1, 98, 0, 0, 1, 0, 1, 0, 0, 0, 0, 0, 4, 5, 6, 7, 8>>
Envs == { [rrs |-> r, err |-> e, big |-> b] : r \in { <<>>, <<RRa>>, <<RRa, RRb>>, <<RRb, RRa>> }, e \in BOOLEAN, b \in BOOLEAN }

TVars(rq) == [key |-> rq.key, alg |-> rq.alg, class |-> ClassANY, ttl |-> TTL0, time |-> Now, fudge |-> rq.fudge,
              origId |-> rq.id, error |-> 0, other |-> <<>>]
\* the octets Out writes for envelope e in state s
Written(s, e) ==
  IF Signs(s.rq) THEN LET g == SignEnv(s.sess, Body(s.rq, e.rrs), TVars(s.rq), Secret) IN [wire |-> Framed(g.env), mac |-> g.mac]
  ELSE [wire |-> Framed(Body(s.rq, e.rrs)), mac |-> <<>>]

Init == /\ \E sig \in {"none", "good", "bad", "nokey"}, op \in {0, 4}, rd \in BOOLEAN, f \in 0..MaxEnv : o = Start(Rq(sig, op, rd), f)
        /\ puts = <<>> /\ wire = <<>> /\ left = FALSE

DoPut == /\ ~left /\ CanPut(o) /\ Len(puts) < MaxEnv
         /\ \E e \in Envs : o' = Put(o, e) /\ puts' = Append(puts, e)
         /\ UNCHANGED << wire, left >>
DoTake == /\ CanTake(o)
          /\ \E oc \in Outcomes(o) :
               LET w == Written(o, o.pend[1]) IN
               /\ o' = TakeEnv(o, oc, w.mac)
               /\ wire' = IF oc = "sent" THEN Append(wire, w.wire) ELSE wire
          /\ UNCHANGED << puts, left >>
DoClose == ~left /\ CanClose(o) /\ o' = Close(o) /\ UNCHANGED << puts, wire, left >>
DoReturn == CanReturnNil(o) /\ o' = ReturnNil(o) /\ UNCHANGED << puts, wire, left >>
DoLeave == ~left /\ o.ch = "open" /\ o.pend = <<>> /\ left' = TRUE /\ UNCHANGED << o, puts, wire >>
Next == DoPut \/ DoTake \/ DoClose \/ DoReturn \/ DoLeave

-----------------------------------------------------------------------------
SecretOf(k) == IF k = LowerName(KeyN) THEN Secret ELSE <<>>

\* O1: one frame per envelope taken successfully, in order, each the reply the envelope calls for
RECURSIVE Verified(_, _, _)
Verified(s, ws, i) ==        \* an independent receiver walks the frames
  IF i > Len(ws) THEN TRUE
  ELSE LET v == VerifyEnv(s, Drop(ws[i], 2), Now, SecretOf) IN v.ok /\ Verified(v.s, ws, i + 1)

OneFramePerEnvelope ==
  /\ Len(wire) = o.n /\ o.n <= Len(puts)
  /\ \A i \in 1..Len(wire) :
       LET msg == Drop(wire[i], 2) IN
       /\ Sub(wire[i], 1, 2) = U16(Len(msg))
       /\ (IF Signs(o.rq) THEN SplitTsig(msg).st = "ok" /\ SplitTsig(msg).body = Body(o.rq, puts[i].rrs)
                           ELSE msg = Body(o.rq, puts[i].rrs))
       /\ MsgId(msg) = o.rq.id /\ msg[3] \div 128 = 1 /\ (msg[3] \div 4) % 2 = 1 /\ msg[4] % 16 = 0
       /\ AnCount(msg) = Len(puts[i].rrs) /\ QdCount(msg) = 1
\* O5: the chain verifies for an independent receiver; nothing signed otherwise
ChainVerifies == IF Signs(o.rq) THEN Verified(Session(o.rq.mac), wire, 1)
                 ELSE \A i \in 1..Len(wire) : SplitTsig(Drop(wire[i], 2)).st = "nosig"
TimersFromSecond == Signs(o.rq) => (o.sess.timers <=> o.n >= 1)
\* O2
NilOnlyWhenDrained == o.st = "returned" /\ o.err = "" => o.ch = "closed" /\ o.n = Len(puts) /\ o.pend = <<>>
\* O3
ErrorIsFirstAndLast == o.err # "" => o.st = "returned" /\ o.n < Len(puts)
NothingAfterReturn == [][ o.st = "returned" => wire' = wire /\ o'.n = o.n /\ o'.err = o.err /\ o'.st = "returned" ]_vars
\* O4
WaitsWhileOpen == (left /\ o.ch = "open" /\ o.err = "") => o.st = "recv"
Abandoned == left /\ o.ch = "open" /\ o.st = "recv" /\ o.pend = <<>> => Waiting(o) /\ ~ENABLED DoReturn /\ ~ENABLED DoTake
\* a transport that refused a write is never written to again
Broken == o.broken => o.st = "returned" /\ o.err # "" /\ o.n = o.failat - 1
=============================================================================
