-------------------------------- MODULE Edns --------------------------------
(* The OPT pseudo-record's fixed part (RFC 6891 s.6.1.2, 6.1.3; RFC 3225 s.3;  *)
(* RFC 9824 s.5.1), stated as an algebra of fields, and what the message level  *)
(* does with it (SetEdns0, IsEdns0, the RCODE split on Pack / join on Unpack,   *)
(* the latter two re-using WireRR where it already states them).                *)
(*                                                                            *)
(*   CLASS  = requestor's UDP payload size                       (16 bits)      *)
(*   TTL    = EXTENDED-RCODE(8) | VERSION(8) | DO(1) | CO(1) | Z(14)            *)
(*                                                                            *)
(* Abstract value (an "OPT header"):  [rc, ver, fl, udp]                        *)
(*   rc  0..255   the upper 8 bits of the 12-bit RCODE                          *)
(*   ver 0..255   EDNS version                                                  *)
(*   fl  0..65535 the flag half-word: DO = bit 15, CO = bit 14, Z = bits 13..0  *)
(*   udp 0..65535                                                               *)
(* The TTL word is carried as 4 octets (TLC integers are 32-bit signed).        *)
(*                                                                            *)
(* One operator per public method of *dns.OPT.  Every setter is a function of  *)
(* the old value and its argument that replaces ONE field.                     *)
EXTENDS WireRR

DOBit == 32768          \* RFC 3225 s.3: the first bit of the third octet of the TTL
COBit == 16384          \* RFC 9824 s.5.1 (IANA "EDNS Header Flags" bit 1)
ZMod  == 16384          \* Z: the remaining 14 bits.  (RFC 6891 alone would say 15;
                        \* the library documents Z()/SetZ() as the 14 low bits.)
Free   == -1             \* "not constrained by the statement" (AMBIG cases below)

IsOptHdr(o) == /\ DOMAIN o = {"rc", "ver", "fl", "udp"}
               /\ o.rc \in 0..255 /\ o.ver \in 0..255 /\ o.fl \in 0..65535 /\ o.udp \in 0..65535

Word(o)      == << o.rc, o.ver, o.fl \div 256, o.fl % 256 >>
OfWord(w, c) == [rc |-> w[1], ver |-> w[2], fl |-> w[3] * 256 + w[4], udp |-> c]

Bit(fl, b)         == (fl \div b) % 2 = 1
WithBit(fl, b, on) == fl - (IF Bit(fl, b) THEN b ELSE 0) + (IF on THEN b ELSE 0)

\* SetDo(do ...bool) / SetCo(co ...bool): "If we pass an argument, set the bit to that
\* value.  It is possible to pass 2 or more arguments, but they will be ignored."
Variadic(bs) == IF Len(bs) = 1 THEN bs[1] ELSE TRUE

-----------------------------------------------------------------------------
(* Getters *)
Do(o)            == Bit(o.fl, DOBit)
Co(o)            == Bit(o.fl, COBit)
Z(o)             == o.fl % ZMod
Version(o)       == o.ver
UDPSize(o)       == o.udp
\* "ExtendedRcode returns the EDNS extended RCODE field (the upper 8 bits of the TTL)":
\* as the library's message code uses it (Rcode |= ExtendedRcode()) it is the field
\* in RCODE position, i.e. shifted left by 4; the low nibble lives in the header.
ExtendedRcode(o) == IF o.rc = Free THEN Free ELSE o.rc * 16

(* Setters *)
SetDo(o, bs)     == [o EXCEPT !.fl = WithBit(@, DOBit, Variadic(bs))]
SetCo(o, bs)     == [o EXCEPT !.fl = WithBit(@, COBit, Variadic(bs))]
SetZ(o, z)       == [o EXCEPT !.fl = (@ \div ZMod) * ZMod + (z % ZMod)]    \* "only the 14 least significant bits of z are used"
SetVersion(o, v) == [o EXCEPT !.ver = v]
SetUDPSize(o, s) == [o EXCEPT !.udp = s]
\* The argument is the full RCODE; the field keeps its upper 8 bits ("if the RCODE
\* is not an extended RCODE, will reset the extended RCODE field to 0").
\* AMBIG: an argument above 4095 is not an RCODE; which octet the field then holds
\* is not stated -- only that nothing else changes.
SetExtendedRcode(o, v) == [o EXCEPT !.rc = IF v <= 4095 THEN v \div 16 ELSE Free]

OpNames == {"SetDo", "SetCo", "SetZ", "SetVersion", "SetExtendedRcode", "SetUDPSize"}

\* an operation: [op, v, bs]   (v: the integer argument, bs: the variadic booleans)
Apply(o, op) ==
  CASE op.op = "SetDo"            -> SetDo(o, op.bs)
    [] op.op = "SetCo"            -> SetCo(o, op.bs)
    [] op.op = "SetZ"             -> SetZ(o, op.v)
    [] op.op = "SetVersion"       -> SetVersion(o, op.v)
    [] op.op = "SetExtendedRcode" -> SetExtendedRcode(o, op.v)
    [] op.op = "SetUDPSize"       -> SetUDPSize(o, op.v)

RECURSIVE ApplyAll(_, _)
ApplyAll(o, ops) == IF ops = <<>> THEN o ELSE ApplyAll(Apply(o, Head(ops)), Tail(ops))

\* everything an observer can read from an OPT header
View(o) == [w |-> Word(o), c |-> o.udp, do |-> Do(o), co |-> Co(o), z |-> Z(o),
            ver |-> Version(o), xr |-> ExtendedRcode(o), udp |-> UDPSize(o)]

\* an observed view satisfies the expected one (Free matches everything)
ViewMatches(exp, obs) ==
  /\ \A i \in 1..4 : exp.w[i] = Free \/ exp.w[i] = obs.w[i]
  /\ exp.c = obs.c /\ exp.do = obs.do /\ exp.co = obs.co /\ exp.z = obs.z
  /\ exp.ver = obs.ver /\ exp.udp = obs.udp
  /\ (exp.xr = Free \/ exp.xr = obs.xr)

-----------------------------------------------------------------------------
(* Message level.  Messages are WireRR's abstract messages.                    *)

OptRR(o) == [name |-> <<>>, type |-> TypeOPT, class |-> o.udp, ttl |-> Word(o), nodata |-> FALSE,
             f |-> [Option |-> <<>>]]
HdrOfRR(rr) == OfWord(rr.ttl, rr.class)

\* Msg.SetEdns0(udpsize, do): appends a fresh OPT (root owner, version 0, no options)
SetEdns0(m, udpsize, do) ==
  [m EXCEPT !.ar = Append(@, OptRR([rc |-> 0, ver |-> 0, fl |-> IF do THEN DOBit ELSE 0, udp |-> udpsize]))]

\* Msg.IsEdns0(): the OPT record of the additional section (0 = none).  RFC 6891
\* s.6.1.1 allows it anywhere in that section and at most once; with several the
\* library takes the last -- only <= 1 is in the universe of the checks.
IsEdns0(m) ==
  LET S == { i \in 1..Len(m.ar) : IsOpt(m.ar[i]) } IN
  IF S = {} THEN 0 ELSE CHOOSE i \in S : \A j \in S : j <= i

\* Pack: WireRR!Packable / WireRR!EncMsg state the split (header keeps RCODE % 16,
\* OPT's first TTL octet becomes RCODE \div 16).  The library performs the split on
\* the caller's OPT record itself ("Set extended rcode unconditionally if we have
\* an opt, this will allow resetting the extended rcode bits"):
AfterPack(m) == [m EXCEPT !.ar = [i \in 1..Len(m.ar) |-> WithExtRcode(m.ar[i], m.hdr.rcode)]]

\* Unpack: WireRR!JoinRcode.  In terms of this module's algebra:
Joined(low, o) == low + ExtendedRcode(o)
=============================================================================
