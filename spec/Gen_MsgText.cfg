CONSTANTS
  MaxLabel = 63
  MaxName = 255
  Shard = 0
  NShards = 1
INIT Init
NEXT Next
INVARIANT Out
