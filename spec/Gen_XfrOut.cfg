CONSTANTS
  MaxLabel = 63
  MaxName = 255
  Mac <- MacModel
INIT Init
NEXT Next
INVARIANT Out
CHECK_DEADLOCK FALSE
