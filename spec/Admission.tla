----------------------------- MODULE Admission -----------------------------
(* Property C14: what a server does with every inbound message (handled,      *)
(* refused/ignored by the accept policy, or reported as invalid -- exactly    *)
(* one of the three), the shape of the replies the library constructs itself, *)
(* and which registered handler the multiplexer picks.                        *)
(*                                                                            *)
(* The module has no variables: Policy / Outcome / ReplyShape / RouteSet are  *)
(* operators, the exactly-once bookkeeping is a small machine over a record   *)
(* (CtrInit, CtrReceive, CtrHandle, CtrDrop, CtrReport) that MC_ and Trace_ modules hold  *)
(* in a variable.                                                             *)
EXTENDS Names

HeaderSize == 12

OpQuery  == 0
OpNotify == 4
RcFormErr == 1
RcNotImp  == 4
RcRefused == 5
TypeDS == 43

(* A header is a record                                                       *)
(*   [id, qr, opcode, aa, tc, rd, ra, z, ad, cd, rcode, qd, an, ns, ar]        *)
(* with the flag fields 0/1.  RFC 1035 section 4.1.1.                          *)
EncHeader(h) ==
  U16(h.id)
  \o << h.qr * 128 + h.opcode * 8 + h.aa * 4 + h.tc * 2 + h.rd,
        h.ra * 128 + h.z * 64 + h.ad * 32 + h.cd * 16 + h.rcode >>
  \o U16(h.qd) \o U16(h.an) \o U16(h.ns) \o U16(h.ar)

DecHeader(m) ==    \* m has at least 12 octets
  [id |-> m[1] * 256 + m[2],
   qr |-> m[3] \div 128, opcode |-> (m[3] \div 8) % 16, aa |-> (m[3] \div 4) % 2,
   tc |-> (m[3] \div 2) % 2, rd |-> m[3] % 2,
   ra |-> m[4] \div 128, z |-> (m[4] \div 64) % 2, ad |-> (m[4] \div 32) % 2,
   cd |-> (m[4] \div 16) % 2, rcode |-> m[4] % 16,
   qd |-> m[5] * 256 + m[6], an |-> m[7] * 256 + m[8],
   ns |-> m[9] * 256 + m[10], ar |-> m[11] * 256 + m[12]]

-----------------------------------------------------------------------------
(* The default accept policy.                                                 *)
(*  - QR set: a response; never answered (answering responses lets two        *)
(*    servers ping-pong for ever).                                            *)
(*  - opcodes the server implements: QUERY and NOTIFY (acceptfunc.go: "opcode *)
(*    isn't OpcodeQuery or OpcodeNotify"); everything else gets NOTIMP.  The  *)
(*    statement gives NOTIMP to unsupported opcodes unconditionally, so the   *)
(*    opcode is looked at before the counts (an UPDATE legitimately has many  *)
(*    records and is not an "over-populated query").                          *)
(*  - a query has exactly one question (RFC 1035 4.1.2 as everybody reads     *)
(*    it; 0 is "malformed"); at most one answer (the SOA of a NOTIFY,         *)
(*    RFC 1996 3.7), at most one authority record (the SOA of an IXFR query,  *)
(*    RFC 1995 3), at most two additional records (OPT and TSIG/SIG(0)).      *)
(*    More is "over-populated".                                               *)
Supported == {OpQuery, OpNotify}

Policy(h) ==
  IF h.qr = 1 THEN "ignore"
  ELSE IF h.opcode \notin Supported THEN "notimp"
  ELSE IF h.qd # 1 \/ h.an > 1 \/ h.ns > 1 \/ h.ar > 2 THEN "reject"
  ELSE "accept"

Policies == {"ignore", "notimp", "reject", "accept"}

(* What happens to one inbound message of `len' octets with header h          *)
(* (meaningful when len >= 12) which decodes (dec = TRUE) or not.             *)
(*   class   : which of the three dispositions -- exactly one                 *)
(*   handled : number of handler invocations                                  *)
(*   invalid : number of invalid-message callback invocations                 *)
(*   reply   : "none" | "formerr" | "notimp" (built by the library)           *)
(*             | "handler" (whatever the handler writes)                      *)
Outcome(len, h, dec) ==
  IF len < HeaderSize THEN
    [class |-> "reported", handled |-> 0, invalid |-> 1, reply |-> "none"]
  ELSE LET p == Policy(h) IN
    CASE p = "ignore" -> [class |-> "dropped",  handled |-> 0, invalid |-> 0, reply |-> "none"]
      [] p = "reject" -> [class |-> "dropped",  handled |-> 0, invalid |-> 0, reply |-> "formerr"]
      [] p = "notimp" -> [class |-> "dropped",  handled |-> 0, invalid |-> 0, reply |-> "notimp"]
      [] p = "accept" /\ dec  -> [class |-> "handled",  handled |-> 1, invalid |-> 0, reply |-> "handler"]
      [] p = "accept" /\ ~dec -> [class |-> "reported", handled |-> 0, invalid |-> 1, reply |-> "formerr"]

-----------------------------------------------------------------------------
(* Lifecycle.  "For every datagram or stream message a server receives": a    *)
(* message has been RECEIVED when the read that carries it completed          *)
(* successfully -- whatever the server's `started' flag says at that instant. *)
(* The statement has no exception for a server that is being shut down: a     *)
(* Shutdown that begins while that read is still blocked (and unblocks it by  *)
(* moving the deadline) does not un-receive a message the read returns all    *)
(* the same; it is handled, refused by the policy or reported like any other  *)
(* (C13 makes Shutdown wait for it, and keeps the packet conn open for the    *)
(* reply).  A phase says where the shutdown falls relative to the message:    *)
(*   "serving"   no Shutdown before the message is disposed of                *)
(*   "stopping"  Shutdown has cleared `started', kicked the readers and        *)
(*               released srv.lock before the read returns -- successfully,   *)
(*               with the message; the whole disposition runs while the       *)
(*               server is not started and Shutdown waits for the drain       *)
Phases == {"serving", "stopping"}

OutcomeAt(phase, len, h, dec) == Outcome(len, h, dec)       \* no phase is an exception

-----------------------------------------------------------------------------
(* Sequences.  "For every datagram or stream message a server receives": the  *)
(* statement quantifies over every message of a server's life, not over the   *)
(* first one.  The n-th message gets the outcome its own octets give it,      *)
(* whatever was received before it (`prefix': the messages received earlier   *)
(* on the same socket / connection); and no message -- however short, however *)
(* malformed -- ends the service: the serve call comes back through Shutdown  *)
(* only (C13), so the messages behind it are received and disposed of too.    *)
OutcomeAfter(prefix, len, h, dec) == Outcome(len, h, dec)   \* no history is an exception
EndsService(len, h) == FALSE                                \* no message makes the serve call return

-----------------------------------------------------------------------------
(* Replies the library constructs itself.  r is the header of the reply (same *)
(* record shape as a request header).  The statement fixes: the request's ID, *)
(* QR set, the rcode, and no answer / authority / additional records.  NOTIMP *)
(* must still name the opcode it does not implement (RFC 1035 4.1.1: OPCODE   *)
(* "is set by the originator of a query and copied into the response").  The  *)
(* statement does not say what opcode a FORMERR carries: unconstrained.       *)
RcodeOf(kind) == CASE kind = "formerr" -> RcFormErr
                   [] kind = "notimp"  -> RcNotImp
                   [] kind = "refused" -> RcRefused

LibReply(h, r, kind) ==
  /\ r.id = h.id
  /\ r.qr = 1
  /\ r.an = 0 /\ r.ns = 0 /\ r.ar = 0
  /\ r.rcode = RcodeOf(kind)
  /\ (kind = "notimp" => r.opcode = h.opcode)

(* REFUSED: additionally the opcode, for a QUERY its RD and CD bits, and the  *)
(* first question (qs = the questions of the request, rqs = of the reply,     *)
(* each question a record [name, qtype, qclass] with name a label sequence).  *)
RefusedReply(h, qs, r, rqs) ==
  /\ LibReply(h, r, "refused")
  /\ r.opcode = h.opcode
  /\ (h.opcode = OpQuery => r.rd = h.rd /\ r.cd = h.cd)
  /\ rqs = (IF qs = <<>> THEN <<>> ELSE <<qs[1]>>)
  /\ r.qd = Len(rqs)

\* the same as a table for vector export: -1 = not constrained
ReplyExpect(h, kind) ==
  [id |-> h.id, qr |-> 1, rcode |-> RcodeOf(kind),
   opcode |-> IF kind \in {"notimp", "refused"} THEN h.opcode ELSE -1,
   rd |-> IF kind = "refused" /\ h.opcode = OpQuery THEN h.rd ELSE -1,
   cd |-> IF kind = "refused" /\ h.opcode = OpQuery THEN h.cd ELSE -1,
   qd |-> IF kind = "refused" THEN (IF h.qd = 0 THEN 0 ELSE 1) ELSE -1,        \* the first question, however many there were
   an |-> 0, ns |-> 0, ar |-> 0]

-----------------------------------------------------------------------------
(* Routing.  A pattern and a question name are label sequences; registering   *)
(* folds ASCII case (two patterns differing in case only are one pattern).    *)
(* PS below is always a set of case-folded patterns.                           *)
IsSuffixName(p, q) == CommonSuffix(p, q) = Len(p)     \* on label boundaries, ASCII-case-insensitive; <<>> (the root) is a suffix of everything

Matching(PS, q) == { p \in PS : IsSuffixName(p, q) }
LongestOf(S)   == CHOOSE p \in S : \A r \in S : Len(r) <= Len(p)   \* suffixes of one name: at most one per length
ProperAnc(PS, m) == { p \in PS : Len(p) < Len(m) /\ IsSuffixName(p, m) }

Refused    == [kind |-> "refused", pat |-> <<>>]
ToPat(p)   == [kind |-> "handler", pat |-> p]

(* The set of admitted dispatch results.                                      *)
(*  - nothing matches (the root pattern matches everything): REFUSED          *)
(*  - not DS: the longest match M; the root pattern is the shortest suffix of *)
(*    every name, i.e. the last resort                                        *)
(*  - DS (RFC 4035 3.1.4.1: DS lives on the parent side of a zone cut):       *)
(*      the name IS M, a registered apex: the nearest registered proper       *)
(*      ancestor of M (the root pattern included) is "the enclosing parent    *)
(*      zone"; none registered: M                                             *)
(*      the name lies strictly below M: M encloses it either as its zone or   *)
(*      as its child; the statement does not say which -- M and M's nearest   *)
(*      registered proper ancestor are both admitted.            \* AMBIG     *)
\* The readings admitted for a DS question strictly below the longest match M (see above).  "closest": M itself, the
\* zone on the parent side of a cut at that name (RFC 4035 3.1.4.1 applied to the name asked for); "parent-of-closest":
\* the nearest registered proper ancestor of M (what serve_mux.go's comment describes).  Whoever owns the statement may
\* strike one of the two here; nothing else has to change.
DSBelowReadings == {"closest", "parent-of-closest"}

RouteSet(PS, q, t) ==
  LET S == Matching(PS, q) IN
  IF S = {} THEN {Refused}
  ELSE LET M == LongestOf(S) IN
    IF t # TypeDS THEN {ToPat(M)}
    ELSE LET A == ProperAnc(PS, M) IN
      IF A = {} THEN {ToPat(M)}
      ELSE IF Len(M) = Len(q) THEN {ToPat(LongestOf(A))}
      ELSE { ToPat(M) : x \in DSBelowReadings \cap {"closest"} }
           \cup { ToPat(LongestOf(A)) : x \in DSBelowReadings \cap {"parent-of-closest"} }            \* AMBIG

\* classification of a routing case (used in finding keys only)
RouteClass(PS, q, t) ==
  IF t # TypeDS THEN "plain"
  ELSE IF Matching(PS, q) = {} THEN "ds-nomatch"
  ELSE IF Len(LongestOf(Matching(PS, q))) = Len(q) THEN "ds-apex" ELSE "ds-below"

\* registered patterns strictly above every admitted handler: a dispatch to one of
\* them went past the nearest parent
PastNearest(PS, q, t) ==
  LET R == { r.pat : r \in { x \in RouteSet(PS, q, t) : x.kind = "handler" } } IN
  IF R = {} THEN {}
  ELSE { p \in Matching(PS, q) : \A r \in R : Len(p) < Len(r) }

-----------------------------------------------------------------------------
(* Exactly once: received = handled + dropped + reported, as a machine over   *)
(* a record.  A message is a record [len, h, dec]; `inflight' holds the       *)
(* messages received whose disposition has not happened yet.                  *)
CtrInit == [received |-> 0, handled |-> 0, dropped |-> 0, reported |-> 0, inflight |-> <<>>]

RemoveAt(s, i) == Sub(s, 1, i - 1) \o Sub(s, i + 1, Len(s))
ClassOf(m) == Outcome(m.len, m.h, m.dec).class

CtrReceive(c, m) == [c EXCEPT !.received = @ + 1, !.inflight = Append(@, m)]

CanHandle(c, i) == i \in 1..Len(c.inflight) /\ ClassOf(c.inflight[i]) = "handled"
CtrHandle(c, i)    == [c EXCEPT !.handled = @ + 1, !.inflight = RemoveAt(@, i)]
CanDrop(c, i)   == i \in 1..Len(c.inflight) /\ ClassOf(c.inflight[i]) = "dropped"
CtrDrop(c, i)      == [c EXCEPT !.dropped = @ + 1, !.inflight = RemoveAt(@, i)]
CanReport(c, i) == i \in 1..Len(c.inflight) /\ ClassOf(c.inflight[i]) = "reported"
CtrReport(c, i)    == [c EXCEPT !.reported = @ + 1, !.inflight = RemoveAt(@, i)]

CtrInv(c) == c.received = c.handled + c.dropped + c.reported + Len(c.inflight)
Settled(c) == c.inflight = <<>>
=============================================================================
